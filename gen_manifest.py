#!/usr/bin/env python3
"""Regenerates MANIFEST.json from the table below (kept next to ./check so the two stay in step)."""
import json, subprocess
ALL = ["C%02d" % i for i in range(1, 18)]
CLAIMED = {
 "C01": ("exploration", "reference interpreter (refsem) + consensus with an independent compiler/VM pair, lock-step VM shadow, real CLI sample", "DESIGN.md §3 C01"),
 "C02": ("exploration", "independent decoder + bytecode validator (abstract interpretation of stack depth) over every emitted file", "DESIGN.md §3 C02"),
 "C03": ("exploration", "round-trip monitor: bytes idempotent, content via public API, independent decoder, behaviour", "DESIGN.md §3 C03"),
 "C04": ("exploration", "independent reader/writer of the documented layout, both directions, hand-assembled vectors", "DESIGN.md §3 C04"),
 "C05": ("exploration", "lock-step shadow of the VM against a reference abstract machine on independently compiled files; exhaustive dispatch table", "DESIGN.md §3 C05"),
 "C06": ("exploration", "differential monitor of the staged CLI pipeline against `fml run` over the configuration space; AST round-trip in three formats", "DESIGN.md §3 C06"),
 "C07": ("exploration", "independent precedence-climbing parser (exhaustive triples) + print/parse round trip with decorated layouts", "DESIGN.md §3 C07"),
 "C08": ("fault_enumeration", "fault-injecting sinks with write-call log and byte-conservation oracle; real stdout sinks at the CLI", "DESIGN.md §3 C08"),
 "C09": ("exploration", "i64 oracle table over boundary/cross-kind cells in debug and release builds + cross-build diff", "DESIGN.md §3 C09"),
 "C10": ("fault_enumeration", "fault injection at every statement position + malformed sources + hostile heap shapes, observed at the CLI boundary (exit, signal, stdout, stderr)", "DESIGN.md §3 C10"),
 "C11": ("exploration", "digest comparison across repeated in-process runs, fresh processes, build profiles and CLI environments", "DESIGN.md §3 C11"),
 "C12": ("exploration", "bounded-exhaustive scoping programs judged by the reference interpreter", "DESIGN.md §3 C12"),
 "C13": ("exploration", "self-identifying tracers in every operand position; predicted marker order + reference interpreter", "DESIGN.md §3 C13"),
 "C14": ("exploration", "object-graph program generator judged by the reference interpreter with consensus", "DESIGN.md §3 C14"),
 "C15": ("exploration", "exhaustive format strings against an independent formatter at bytecode and source level; rendering of random nested values", "DESIGN.md §3 C15"),
 "C16": ("exploration", "heap-log monitor: CSV shape, allocation history from the reference interpreter, calibrated shape model; flag inertness at the CLI", "DESIGN.md §3 C16"),
 "C17": ("exploration", "listing reader vs independent decoder over compiler outputs and structural programs", "DESIGN.md §3 C17"),
}
TEXT = {
 "C01": "For every program the run generated (tens of thousands per quick run: all README constructs, a construct x context matrix and a three-way construct x wrapper x context matrix, ~110 fixed shapes (width boundaries, name clashes, tail calls, linked structures, one access site with many receiver layouts, 70 000-step histories), the in-repo corpus, a share with one injected fault of 58 classes) the stdout and success/failure of the real pipeline equal those of an independent reference interpreter; a share also runs under a lock-step shadow of the VM and through the real CLI. A property over all programs cannot be enumerated; exploration with a consensus oracle (two independent references must agree before the subject is blamed) is the strongest thing this family offers, and the evidence lists which constructs were actually evaluated.",
 "C02": "Every file the compiler emitted in the run was decoded by an independent reader and passed a validator that checks reference kinds, label uniqueness/locality, local ranges, method partition and — by abstract interpretation over each method's control-flow graph — a path-independent, never negative operand depth that is exactly 1 at every return. It is a per-artifact invariant, so checking every artifact of a diverse workload (incl. programs that fail at run time and keep_result both ways for every construct) is the natural level; lock-step runs confirm the static depths dynamically.",
 "C03": "write -> load -> write is byte-idempotent and content-preserving (constants, instruction sequences, globals, entry via the public API and an independent decoder) and behaviour-preserving for every Program explored, including programs that never came from FML's compiler (shuffled code layout, duplicate constants, empty classes and names, extreme integers) and, at the CLI, files larger than the loader's buffer.",
 "C04": "Both directions against an implementation that shares nothing with FML: every file FML wrote decodes strictly and equals the independent writer's bytes; every file the independent writer produced (structural programs, alternate-compiler output, the repo's golden files) loads as the program it denotes, also through the real file/stdin loader with short reads; four hand-assembled byte vectors pin the layout independently of both implementations. A symmetric change to FML's reader and writer passes every round-trip test but fails here.",
 "C05": "The real VM executes independently compiled, conforming files instruction by instruction while a reference machine written from the opcode documentation executes the same instruction; after every instruction the instruction pointer, the whole operand stack, the top frame, touched globals and heap objects and the output are compared (millions of shadowed instructions per quick run), plus an exhaustive receiver x method x arguments dispatch table (both spellings of every built-in, plausible undefined names), an integer boundary table in both build profiles, and hand-assembled programs whose undefined instructions sit in dead code or run late. Observing the whole state after every step is what makes a wrong instruction visible even when the program's output would hide it.",
 "C06": "The property is stated at the CLI, so it is monitored there: over a thousand staged pipelines per quick run across the full configuration space (format x output kind x input kind x explicit/inferred format, file names, unusually named output directories, pre-existing outputs, chunked stdin), over programs whose strings are random concatenations of the three formats' structural characters and whose identifiers are YAML/JSON look-alikes and the AST's own node names, each stage's artifact compared byte for byte and the final behaviour with `fml run`; in-process AST round trips give volume. The recursion-limit refusal of deep ASTs is a recorded known finding.",
 "C07": "All 2197 operator triples against an independent precedence-climbing parser (exhaustive for that shape), ~45 documented shapes, every word of up to three letters plus ~800 keyword-like words in every identifier position, each of 20 white-space kinds between all tokens of a fixed program, and print/parse round trips of random parser-range ASTs with minimal, full and random parenthesisation and a random whitespace/comment separator at every token boundary.",
 "C08": "Fault enumeration: for each program every write call the serializer issues is first counted on a logging sink, then a short write is injected at each call in turn, plus every per-call acceptance limit of the list, consecutive 1-byte acceptances, Interrupted, Ok(0) and hard errors, directly and through the CLI's own sink wrapper; the oracle is conservation of bytes (Ok implies the sink holds exactly the Vec bytes). Real stdout sinks (file redirect, pipe, slowly drained pipe, redirect typed at a pseudo-terminal) are compared with -o; a full device and a reader that closes early must not yield status 0. The quantifier is over fault sequences, so enumerating them is the right level.",
 "C09": "Exhaustive over the boundary table (16 x 16 x 11), all boolean/null tables, all cross-kind pairs and arities, the boundary table again under the Feeny spellings, seeded random pairs chosen by magnitude and by relation, and bulk programs whose operands live in variables, fields and elements, against an i64 oracle, executed through the whole pipeline in BOTH build profiles, and every cell diffed between the debug and the release run by the driver.",
 "C10": "Fault enumeration at the CLI boundary of the real binary in both build profiles: one fault of each of 58 classes (16 of them near misses and look-constant expressions) at every statement position of generated programs (the reference gives the exact output before the fault), six faulting expressions inside 16 wrappers x 38 contexts, unwritable or merged stderr, a placement matrix of statement forms x positions and ~200 must-reject sources incl. every undefined escape, 14 kinds of malformed sources, hand-assembled bytecode through `fml execute`, failures right after output that fills the usual buffers, programs beyond the format's capacity, and hostile heap shapes (cycles of many sizes through elements/fields/parents reaching print, dispatch and error messages, also inside a 300000-object heap; 1000-link chains; deep recursion; nesting depth 200). What is observed is exactly what the property constrains: stdout, stderr emptiness, exit status, death by signal. The thorough tier repeats the workload under AddressSanitizer, valgrind memcheck and Miri.",
 "C11": "Digests (bytecode hash, output hash, success) of a count-based corpus are compared across five compilations in one process, three to four fresh processes per build profile, debug vs release, and a CLI sample under varied cwd/path/stdin/environment/ASLR. Nondeterminism can only be sampled, not forced; the corpus is built so that hash-order dependence has many chances to show (many locals in several open scopes, labels, globals, printed objects with 6-10 fields).",
 "C12": "Bounded-exhaustive: every statement sequence up to the size bound over the scoping alphabet in five placements (about a million programs per quick run), larger sizes sampled, 20 visibility probes and 11 fixed scoping shapes, judged by a reference whose lexical resolver is independent of the compiler's scope table. Exhaustive per bound, not over all programs (exhaustive=false). The compile-order hazard is a recorded known finding with four dedicated probes.",
 "C13": "18 expression shapes with a self-identifying tracer in every operand position, nested to depth 3, value kept or discarded; two independent oracles must both hold on the real output: the marker sequence predicted from the documented order and multiplicities, and the reference interpreter's whole output.",
 "C14": "Generated programs over parent chains of depth 1-5 ending in every kind of value, with overriding at every level, operator/get/set members, aliasing through every storage location kind and expected failures (arity, missing method, inherited field), helper functions whose single access instruction sees receivers of many layouts, a table of plausible but undefined method names on every kind of receiver, and ~25 fixed object-model shapes, judged by the reference interpreter with consensus on a share and a CLI sample; the evidence lists which methods were dispatched and which aliasing forms were exercised.",
 "C15": "All format strings up to length 4 (quick) / 6 (thorough: 137 257 strings x 0-3 arguments, exhaustive) over the stated alphabet at bytecode and source level against an independent formatter (a failing print must print nothing), random formats over a wide Unicode alphabet (a sample byte-exact through the CLI, also with a pseudo-terminal as stdout), formats with up to 12 placeholders around arguments of every kind, and random nested values rendered through print.",
 "C16": "At the CLI in both builds: identical stdout/exit with and without --heap-log (16 unusual log locations incl. non-UTF-8 names and symbolic links) and for every --heap-size of the list, also for programs whose allocations cross the small sizes mid-history; the CSV has the header, one S record, exactly one A record per allocation of the reference's allocation history, strictly increasing sizes, and each increment equals what an affine shape model calibrated on the binary under test predicts for that allocation's shape (so order, count and shape dependence are checked without pinning size_of).",
 "C17": "The listing (in-process Display for volume, real `fml disassemble` via file and stdin for a sample) is parsed back into constants, globals, entry and per-method instruction sequences and compared with an independent decode of the same file, for compiler outputs, golden files and structural programs whose strings contain every delimiter of the listing.",
}
NOTE = {
 "C01": "Trusted: refsem (README + DESIGN.md §1 conventions); violations need consensus of altcc+refvm; out-of-fragment programs are never compared.",
 "C02": "Trusted: harness decoder bcfmt and validator bcvalid; statically rejected programs are skipped.",
 "C03": "Trusted: Program's public accessors used to read content; reference VM decides which programs are conforming.",
 "C04": "Trusted: bcfmt (written from C04 text), cross-checked by hand-assembled byte vectors.",
 "C05": "Trusted: refvm (OpCode doc-comments + C05), altcc output is conforming by construction and validated by refvm's NonConforming status.",
 "C06": "Trusted: `fml run` as the behavioural baseline (its own correctness is C01's business); depth measurement for the recursion-limit known finding.",
 "C07": "Trusted: printer (DESIGN.md Appendix C) and the precedence table as written in C07/README.",
 "C08": "Trusted: sinks honour the Write contract; a Vec<u8> sink is the baseline.",
 "C09": "Trusted: the i64 table; MIN % -1 accepted either way but must be build-independent.",
 "C10": "Trusted: refsem for the expected prefix; wall-clock watchdog firing is inconclusive, never a violation.",
 "C11": "Trusted: nothing beyond hashing; hash-seed / ASLR variation is sampled, not forced.",
 "C12": "Trusted: refsem's independent lexical resolver; programs with same-scope redefinition or reads before definition are classified and skipped.",
 "C13": "Trusted: the shape-to-marker prediction written from C13; refsem must agree with it or the case is a harness inconsistency.",
 "C14": "Trusted: refsem conventions for `this`, field lookup and chain ends (DESIGN.md §1).",
 "C15": "Trusted: the independent formatter and renderer in prim.rs.",
 "C16": "Trusted: refsem's allocation history; size constants calibrated on the binary under test.",
 "C17": "Trusted: listing reader tied to the current listing grammar; bcfmt.",
}
def main():
    commits = subprocess.run(["git","-C","/repo","log","--format=%H %s"],stdout=subprocess.PIPE,text=True).stdout.splitlines()
    hooks = [c.split()[0] for c in commits if "verif hook" in c]
    checks = []
    for cid in ALL:
        if cid not in CLAIMED: continue
        cat, tech, ref = CLAIMED[cid]
        checks.append({
            "property_id": cid,
            "quick_cmd": "./check %s quick" % cid,
            "thorough_cmd": "./check %s thorough" % cid,
            "evidence_file": "/verif/evidence/%s.json" % cid,
            "replay_cmd_template": "./check replay {path}",
            "engine": "harness",
            "level_claimed": {"category": cat, "text": TEXT[cid], "design_ref": ref},
            "level_note": NOTE[cid],
            "technique": "runtime monitoring: " + tech,
        })
    na = []
    m = {
        "version": 1,
        "setup_cmd": "./check setup",
        "hooks": {
            "guard": "kondziu_fml_verif",
            "enable": "RUSTFLAGS='--cfg kondziu_fml_verif' cargo build --offline --manifest-path /repo/Cargo.toml --target-dir /verif/.build/<flavour> [--release]",
            "baseline_off_cmd": "cd /repo && cargo test --workspace --no-fail-fast --offline",
            "source_commits": hooks,
            "add_only": True,
        },
        "engines": [{"name": "harness", "path": "/verif/harness", "serves_properties": [c for c in ALL if c in CLAIMED],
                     "kind_free_text": "Rust module compiled into the fml binary under --cfg kondziu_fml_verif: generators, reference models, monitors; driven by ./check (python3 stdlib)"}],
        "checks": checks,
        "not_applicable": na,
        "notes": "Technique family: runtime monitoring and sanitizers. Exit 0 held / 1 violation / 2 inconclusive (too few conclusive executions, watchdog). Known findings (exact signatures) and fixed defects in KNOWN_FINDINGS.txt: nine `fix:` commits in /repo (D1-D5, D7, D9, D10, D12), known: C06 ast-recursion-limit x3, C12 compile-order-hazard x2, C10 native-stack-overflow:deep-source x3. VERIF_SEED selects the seed (default 1). DESIGN.md: approach, deviations, alarm triage (8.4), seeded rounds (9), sanitizers (10).",
    }
    json.dump(m, open("/verif/MANIFEST.json","w"), indent=1)
main()
