#!/usr/bin/env python3
"""Regenerates MANIFEST.json from the table below (kept next to ./check so the two stay in step)."""
import json, subprocess
ALL = ["C%02d" % i for i in range(1, 18)]
CLAIMED = {
 "C01": ("exploration", "reference interpreter (refsem) + consensus with an independent compiler/VM pair, lock-step VM shadow, real CLI sample", "DESIGN.md §3 C01"),
 "C02": ("exploration", "independent decoder + bytecode validator (abstract interpretation of stack depth) over every emitted file", "DESIGN.md §3 C02"),
 "C03": ("exploration", "round-trip monitor: bytes idempotent, content via public API, independent decoder, behaviour", "DESIGN.md §3 C03"),
 "C04": ("exploration", "independent reader/writer of the documented layout, both directions, hand-assembled vectors", "DESIGN.md §3 C04"),
 "C05": ("exploration", "lock-step shadow of the VM against a reference abstract machine on independently compiled files; exhaustive dispatch table", "DESIGN.md §3 C05"),
 "C06": ("exploration", "differential monitor of the staged CLI pipeline against `fml run` over the configuration space; AST round-trip in three formats", "DESIGN.md §3 C06"),
 "C07": ("exploration", "independent precedence-climbing parser (exhaustive triples) + print/parse round trip with decorated layouts", "DESIGN.md §3 C07"),
 "C08": ("fault_enumeration", "fault-injecting sinks with write-call log and byte-conservation oracle; real stdout sinks at the CLI", "DESIGN.md §3 C08"),
 "C09": ("exploration", "i64 oracle table over boundary/cross-kind cells in debug and release builds + cross-build diff", "DESIGN.md §3 C09"),
 "C10": ("fault_enumeration", "fault injection at every statement position + malformed sources + hostile heap shapes, observed at the CLI boundary (exit, signal, stdout, stderr)", "DESIGN.md §3 C10"),
 "C11": ("exploration", "digest comparison across repeated in-process runs, fresh processes, build profiles and CLI environments", "DESIGN.md §3 C11"),
 "C12": ("exploration", "bounded-exhaustive scoping programs judged by the reference interpreter", "DESIGN.md §3 C12"),
 "C13": ("exploration", "self-identifying tracers in every operand position; predicted marker order + reference interpreter", "DESIGN.md §3 C13"),
 "C14": ("exploration", "object-graph program generator judged by the reference interpreter with consensus", "DESIGN.md §3 C14"),
 "C15": ("exploration", "exhaustive format strings against an independent formatter at bytecode and source level; rendering of random nested values", "DESIGN.md §3 C15"),
 "C16": ("exploration", "heap-log monitor: CSV shape, allocation history from the reference interpreter, calibrated shape model; flag inertness at the CLI", "DESIGN.md §3 C16"),
 "C17": ("exploration", "listing reader vs independent decoder over compiler outputs and structural programs", "DESIGN.md §3 C17"),
}
GENERIC_TEXT = "Held on every execution this run produced; the evidence file lists how many cases, which constructs / opcodes / configurations were hit, and what was not judged. Exploration (fault enumeration where the quantifier is over faults) is the level this technique family gives: an oracle observing real executions of a diverse deterministic + seeded workload."
TEXT = {c: GENERIC_TEXT for c in ALL}
NOTE = {
 "C01": "Trusted: refsem (README + DESIGN.md §1 conventions); violations need consensus of altcc+refvm; out-of-fragment programs are never compared.",
 "C02": "Trusted: harness decoder bcfmt and validator bcvalid; statically rejected programs are skipped.",
 "C03": "Trusted: Program's public accessors used to read content; reference VM decides which programs are conforming.",
 "C04": "Trusted: bcfmt (written from C04 text), cross-checked by hand-assembled byte vectors.",
 "C05": "Trusted: refvm (OpCode doc-comments + C05), altcc output is conforming by construction and validated by refvm's NonConforming status.",
 "C06": "Trusted: `fml run` as the behavioural baseline (its own correctness is C01's business); depth measurement for the recursion-limit known finding.",
 "C07": "Trusted: printer (DESIGN.md Appendix C) and the precedence table as written in C07/README.",
 "C08": "Trusted: sinks honour the Write contract; a Vec<u8> sink is the baseline.",
 "C09": "Trusted: the i64 table; MIN % -1 accepted either way but must be build-independent.",
 "C10": "Trusted: refsem for the expected prefix; wall-clock watchdog firing is inconclusive, never a violation.",
 "C11": "Trusted: nothing beyond hashing; hash-seed / ASLR variation is sampled, not forced.",
 "C12": "Trusted: refsem's independent lexical resolver; programs with same-scope redefinition or reads before definition are classified and skipped.",
 "C13": "Trusted: the shape-to-marker prediction written from C13; refsem must agree with it or the case is a harness inconsistency.",
 "C14": "Trusted: refsem conventions for `this`, field lookup and chain ends (DESIGN.md §1).",
 "C15": "Trusted: the independent formatter and renderer in prim.rs.",
 "C16": "Trusted: refsem's allocation history; size constants calibrated on the binary under test.",
 "C17": "Trusted: listing reader tied to the current listing grammar; bcfmt.",
}
def main():
    commits = subprocess.run(["git","-C","/repo","log","--format=%H %s"],stdout=subprocess.PIPE,text=True).stdout.splitlines()
    hooks = [c.split()[0] for c in commits if "verif hook" in c]
    checks = []
    for cid in ALL:
        if cid not in CLAIMED: continue
        cat, tech, ref = CLAIMED[cid]
        checks.append({
            "property_id": cid,
            "quick_cmd": "./check %s quick" % cid,
            "thorough_cmd": "./check %s thorough" % cid,
            "evidence_file": "/verif/evidence/%s.json" % cid,
            "replay_cmd_template": "./check replay {path}",
            "engine": "harness",
            "level_claimed": {"category": cat, "text": TEXT[cid], "design_ref": ref},
            "level_note": NOTE[cid],
            "technique": "runtime monitoring: " + tech,
        })
    na = []
    m = {
        "version": 1,
        "setup_cmd": "./check setup",
        "hooks": {
            "guard": "kondziu_fml_verif",
            "enable": "RUSTFLAGS='--cfg kondziu_fml_verif' cargo build --offline --manifest-path /repo/Cargo.toml --target-dir /verif/.build/<flavour> [--release]",
            "baseline_off_cmd": "cd /repo && cargo test --workspace --no-fail-fast --offline",
            "source_commits": hooks,
            "add_only": True,
        },
        "engines": [{"name": "harness", "path": "/verif/harness", "serves_properties": [c for c in ALL if c in CLAIMED],
                     "kind_free_text": "Rust module compiled into the fml binary under --cfg kondziu_fml_verif: generators, reference models, monitors; driven by ./check (python3 stdlib)"}],
        "checks": checks,
        "not_applicable": na,
        "notes": "Technique family: runtime monitoring and sanitizers. Exit 0 held / 1 violation / 2 inconclusive. Known findings in KNOWN_FINDINGS.txt.",
    }
    json.dump(m, open("/verif/MANIFEST.json","w"), indent=1)
main()
