#!/usr/bin/env python3
"""Regenerates MANIFEST.json from the table below (kept next to ./check so the two stay in step)."""
import json, subprocess
ALL = ["C%02d" % i for i in range(1, 18)]
CLAIMED = {
 "C02": ("exploration", "independent decoder + bytecode validator (abstract interpretation of stack depth) over every emitted file", "DESIGN.md §3 C02"),
 "C03": ("exploration", "round-trip monitor: bytes idempotent, content via public API, independent decoder, behaviour", "DESIGN.md §3 C03"),
 "C04": ("exploration", "independent reader/writer of the documented layout, both directions, hand-assembled vectors", "DESIGN.md §3 C04"),
 "C17": ("exploration", "listing reader vs independent decoder over compiler outputs and structural programs", "DESIGN.md §3 C17"),
}
TEXT = {
 "C02": "Held on every program generated in the run: each file the compiler emitted was decoded independently and passed the validator. Exploration is the right level: the property is a per-artifact invariant checked on every artifact a diverse, deterministic+random workload produces.",
 "C03": "Held on every Program explored (compiler outputs, directly built structural programs, alternate-compiler programs laid out in shuffled code order).",
 "C04": "Held in both directions on every file explored and on four hand-assembled vectors.",
 "C17": "Held on every listing explored, in-process Display and real CLI.",
}
NOTE = {
 "C02": "Trusted: harness decoder bcfmt and validator bcvalid; statically rejected programs are skipped.",
 "C03": "Trusted: Program's public accessors used to read content; reference VM decides which programs are conforming.",
 "C04": "Trusted: bcfmt (written from C04 text), cross-checked by hand-assembled byte vectors.",
 "C17": "Trusted: listing reader tied to the current listing grammar; bcfmt.",
}
def main():
    commits = subprocess.run(["git","-C","/repo","log","--format=%H %s"],stdout=subprocess.PIPE,text=True).stdout.splitlines()
    hooks = [c.split()[0] for c in commits if "verif hook" in c]
    checks = []
    for cid in ALL:
        if cid not in CLAIMED: continue
        cat, tech, ref = CLAIMED[cid]
        checks.append({
            "property_id": cid,
            "quick_cmd": "./check %s quick" % cid,
            "thorough_cmd": "./check %s thorough" % cid,
            "evidence_file": "/verif/evidence/%s.json" % cid,
            "replay_cmd_template": "./check replay {path}",
            "engine": "harness",
            "level_claimed": {"category": cat, "text": TEXT[cid], "design_ref": ref},
            "level_note": NOTE[cid],
            "technique": "runtime monitoring: " + tech,
        })
    na = [{"property_id": c, "reason": "check not built yet in this session; planned (see DESIGN.md §3)"} for c in ALL if c not in CLAIMED]
    m = {
        "version": 1,
        "setup_cmd": "./check setup",
        "hooks": {
            "guard": "kondziu_fml_verif",
            "enable": "RUSTFLAGS='--cfg kondziu_fml_verif' cargo build --offline --manifest-path /repo/Cargo.toml --target-dir /verif/.build/<flavour> [--release]",
            "baseline_off_cmd": "cd /repo && cargo test --workspace --no-fail-fast --offline",
            "source_commits": hooks,
            "add_only": True,
        },
        "engines": [{"name": "harness", "path": "/verif/harness", "serves_properties": [c for c in ALL if c in CLAIMED],
                     "kind_free_text": "Rust module compiled into the fml binary under --cfg kondziu_fml_verif: generators, reference models, monitors; driven by ./check (python3 stdlib)"}],
        "checks": checks,
        "not_applicable": na,
        "notes": "Technique family: runtime monitoring and sanitizers. Exit 0 held / 1 violation / 2 inconclusive. Known findings in KNOWN_FINDINGS.txt.",
    }
    json.dump(m, open("/verif/MANIFEST.json","w"), indent=1)
main()
