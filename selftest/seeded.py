#!/usr/bin/env python3
"""Runs the checks against independently written breaking changes (sub-agent patches).

For every /tmp/wt/<ID>/_out/patchN.diff:
  1. confirm in the scratch worktree: demo fails with the patch, passes without, tests pass with
  2. apply to /repo, run ./check <ID> quick (and, if missed, every other check), revert
Writes /verif/selftest/seeded_results.json. Every step has a timeout.
"""
import glob, json, os, subprocess, sys

ALL = ["C%02d" % i for i in range(1, 18)]


def sh(cmd, timeout, cwd=None):
    try:
        p = subprocess.run(cmd, shell=True, stdout=subprocess.PIPE, stderr=subprocess.STDOUT, text=True, timeout=timeout, cwd=cwd, start_new_session=True)
        return p.returncode, p.stdout
    except subprocess.TimeoutExpired as e:
        subprocess.run("pkill -9 -f 'deps/fml-' ; pkill -9 -f 'verif-harness'", shell=True)
        return 124, (e.stdout or b"").decode(errors="replace") if isinstance(e.stdout, bytes) else (e.stdout or "")


def main():
    only = sys.argv[1:]
    root = os.environ.get("SEEDED_ROOT", "/tmp/wt")
    out_path = os.environ.get("SEEDED_OUT", "/verif/selftest/seeded_results.json")
    results = json.load(open(out_path)) if os.path.exists(out_path) else {}
    for wt in sorted(glob.glob(root + "/*")):
        base = os.path.basename(wt)
        for n in range(1, 7):
            patch = os.path.join(wt, "_out", "patch%d.diff" % n)
            if not os.path.exists(patch):
                continue
            if base.startswith("C") and base[1:].isdigit():
                cid = base
            else:
                # cross-cutting rounds: the property is named in metaN.json
                try:
                    prop = json.load(open(os.path.join(wt, "_out", "meta%d.json" % n))).get("property", "")
                except Exception:
                    prop = ""
                import re
                m = re.search(r"C\d\d", prop)
                cid = m.group(0) if m else "C01"
            key = "%s-%d" % (base, n) if base != cid else "%s-%d" % (cid, n)
            if only and key not in only and cid not in only and base not in only:
                continue
            r = results.get(key, {})
            # 1. confirm in the worktree
            if "demo_with_patch" not in r:
                sh("git checkout -- src Cargo.toml 2>/dev/null; git apply %s" % patch, 60, cwd=wt)
                rc_t, out_t = sh("cargo test --offline 2>&1 | grep -E 'test result'", 600, cwd=wt)
                r["tests_pass_with_patch"] = "259 passed; 0 failed" in out_t
                demo = os.path.join(wt, "_out", "demo%d.sh" % n)
                if os.path.exists(demo):
                    # some demos use the already built binary: build before each run
                    sh("cargo build --offline -q 2>/dev/null", 900, cwd=wt)
                    rc1, _ = sh("bash %s" % demo, 900, cwd=wt)
                    sh("git checkout -- src", 60, cwd=wt)
                    sh("cargo build --offline -q 2>/dev/null", 900, cwd=wt)
                    rc0, _ = sh("bash %s" % demo, 900, cwd=wt)
                    r["demo_with_patch"] = rc1
                    r["demo_without_patch"] = rc0
                else:
                    r["demo_with_patch"] = r["demo_without_patch"] = None
                sh("git checkout -- src", 60, cwd=wt)
            # 2. the checks
            rc, _ = sh("git -C /repo checkout -- . && git -C /repo apply %s" % patch, 60)
            if rc != 0:
                r["applies_to_repo"] = False
                results[key] = r
                continue
            r["applies_to_repo"] = True
            try:
                checks = r.get("checks", {})
                if cid not in checks:
                    rc, out = sh("cd /verif && ./check %s quick" % cid, 1500)
                    checks[cid] = rc
                    r["own_check_output"] = "\n".join(l for l in out.splitlines() if l.startswith(("VIOLATION", "INCONCLUSIVE", "  ")))[:1500]
                if checks.get(cid) != 1 and not r.get("others_done"):
                    for other in ALL:
                        if other == cid or other in checks:
                            continue
                        rc, out = sh("cd /verif && ./check %s quick" % other, 1500)
                        checks[other] = rc
                    r["others_done"] = True
                r["checks"] = checks
            finally:
                sh("git -C /repo checkout -- .", 60)
            results[key] = r
            json.dump(results, open(out_path, "w"), indent=1)
            caught = [c for c, v in r["checks"].items() if v == 1]
            r["property"] = cid
            print("%s tests_pass=%s demo(with/without)=%s/%s own=%s caught_by=%s" % (key, r.get("tests_pass_with_patch"), r.get("demo_with_patch"), r.get("demo_without_patch"), r["checks"].get(cid), caught), flush=True)


if __name__ == "__main__":
    main()
