#!/bin/bash
# Checks the replay path end to end: with a seeded break applied a check must print a VIOLATION
# line with a replay file; `./check replay <file>` must reproduce it (exit 1) on the broken tree
# and stay silent (exit 0) on the restored tree. Always restores /repo.
cd /verif
trap 'git -C /repo checkout -- . 2>/dev/null' EXIT
fail=0
try() {
  name=$1; check=$2; file=$3; old=$4; new=$5
  python3 - "$file" "$old" "$new" <<'EOF' || { echo "$name: anchor not found"; return; }
import sys
p="/repo/"+sys.argv[1]; s=open(p).read()
if sys.argv[2] not in s: sys.exit(1)
open(p,"w").write(s.replace(sys.argv[2], sys.argv[3], 1))
EOF
  out=$(timeout 1500 ./check $check quick 2>/dev/null); rc=$?
  path=$(echo "$out" | grep -m1 '^VIOLATION' | sed 's/.*replay=//')
  if [ $rc -ne 1 ] || [ -z "$path" ] || [ ! -f "$path" ]; then echo "$name: $check did not report a violation with a replay file (rc=$rc)"; fail=1; git -C /repo checkout -- .; return; fi
  timeout 900 ./check replay "$path" >/dev/null 2>&1; r1=$?
  git -C /repo checkout -- .
  timeout 900 ./check replay "$path" >/dev/null 2>&1; r0=$?
  echo "$name: check rc=$rc, replay on broken tree rc=$r1 (want 1), replay on restored tree rc=$r0 (want 0)"
  if [ $r1 -ne 1 ] || [ $r0 -ne 0 ]; then fail=1; fi
}
try mod-euclid C09 src/bytecode/interpreter.rs '("%",  Pointer::Integer(argument)) => Pointer::from(receiver %  argument),' '("%",  Pointer::Integer(argument)) => { bail_if!(*argument == 0 || (*receiver == i32::MIN && *argument == -1), "bad {}", "operand"); Pointer::from(receiver.rem_euclid(*argument)) },'
try sort-fields C15 src/bytecode/heap.rs '        sorted_fields.sort_by_key(|(name, _)| *name);' '        sorted_fields.sort_by_key(|(name, _)| (name.len() > 3, *name));'
try utf8-len C04 src/bytecode/serializable.rs '    write_usize_as_u32(writer, bytes.len())?;' '    write_usize_as_u32(writer, string.chars().count())?;'
try forget-leave-scope C12 src/bytecode/compiler.rs '                    Frame::Top => global_environment.leave_scope(),
                }
            }

            AST::AccessField' '                    Frame::Top => if children.len() > 3 { global_environment.leave_scope() },
                }
            }

            AST::AccessField'
try disasm C17 src/bytecode/bytecode.rs '                write!(f, "set global {}", name),' '                write!(f, "get global {}", name),'
try unknown-global C10 src/bytecode/interpreter.rs '    let pointer = *state.frame_stack.globals.get(name)?;
    state.operand_stack.push(pointer);' '    let pointer = state.frame_stack.globals.get(name).map(|p| *p).unwrap_or(Pointer::Null);
    state.operand_stack.push(pointer);'
try write-short C08 src/bytecode/serializable.rs '    let buf = value.to_le_bytes();
    writer.write_all(&buf)?;//.expect(&format!("Problem writing u16' '    let buf = value.to_le_bytes();
    writer.write(&buf)?;//.expect(&format!("Problem writing u16'
exit $fail
