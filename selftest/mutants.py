#!/usr/bin/env python3
"""Seeded-break self-test (DESIGN.md §4): applies small source mutations to /repo's
working tree one at a time, confirms the 259 tests still pass, runs the named quick
checks and reports which of them raise an alarm. Always restores /repo afterwards.

  ./selftest/mutants.py [name ...]
"""
import subprocess, sys, os, json, time

REPO = "/repo"
M = {
 # name: (file, old, new, [checks expected to catch])
 "drop-assign": ("src/bytecode/compiler.rs",
   "                        active_buffer.emit(OpCode::SetGlobal { name: index });\n                    },\n                }\n                active_buffer.emit_unless(OpCode::Drop, keep_result);\n            }\n\n            AST::Conditional",
   "                        active_buffer.emit(OpCode::SetGlobal { name: index });\n                    },\n                }\n            }\n\n            AST::Conditional", ["C02", "C01"]),
 "label-group-reuse": ("src/bytecode/compiler.rs",
   "        let group = self.groups;\n        self.groups = self.groups + 1;\n        LabelGroup { labels: self, group }",
   "        let group = self.groups;\n        self.groups = self.groups + (group % 5 != 4) as usize;\n        LabelGroup { labels: self, group }", ["C02", "C01"]),
 "utf8-len-chars": ("src/bytecode/serializable.rs",
   "    write_usize_as_u32(writer, bytes.len())?;", "    write_usize_as_u32(writer, string.chars().count())?;", ["C04", "C03"]),
 "set-slot-pushes-object": ("src/bytecode/interpreter.rs",
   "    object_instance.set_field(name, value_pointer.clone())?;\n    state.operand_stack.push(value_pointer);",
   "    object_instance.set_field(name, value_pointer.clone())?;\n    state.operand_stack.push(object_pointer);", ["C05", "C01"]),
 "mod-euclid": ("src/bytecode/interpreter.rs",
   '("%",  Pointer::Integer(argument)) => Pointer::from(receiver %  argument),',
   '("%",  Pointer::Integer(argument)) => { bail_if!(*argument == 0 || (*receiver == i32::MIN && *argument == -1), "bad {}", "operand"); Pointer::from(receiver.rem_euclid(*argument)) },', ["C09", "C01"]),
 "write-u16-short": ("src/bytecode/serializable.rs",
   "    let buf = value.to_le_bytes();\n    writer.write_all(&buf)?;//.expect(&format!(\"Problem writing u16",
   "    let buf = value.to_le_bytes();\n    writer.write(&buf)?;//.expect(&format!(\"Problem writing u16", ["C08"]),
 "unknown-global-null": ("src/bytecode/interpreter.rs",
   "    let pointer = *state.frame_stack.globals.get(name)?;\n    state.operand_stack.push(pointer);",
   "    let pointer = state.frame_stack.globals.get(name).map(|p| *p).unwrap_or(Pointer::Null);\n    state.operand_stack.push(pointer);", ["C10", "C01"]),
 "forget-leave-scope": ("src/bytecode/compiler.rs",
   "                    Frame::Top => global_environment.leave_scope(),\n                }\n            }\n\n            AST::AccessField",
   "                    Frame::Top => if children.len() > 3 { global_environment.leave_scope() },\n                }\n            }\n\n            AST::AccessField", ["C12", "C01"]),
 "field-from-parent": ("src/bytecode/interpreter.rs",
   "    let object_instance = object.as_object_instance()?;\n    let pointer = object_instance.get_field(name)?;\n    state.operand_stack.push(*pointer);",
   "    let object_instance = object.as_object_instance()?;\n    let pointer = match object_instance.get_field(name) { Ok(p) => *p, Err(e) => match object_instance.parent { Pointer::Reference(p) => *state.heap.dereference(&p)?.as_object_instance()?.get_field(name)?, _ => return Err(e) } };\n    state.operand_stack.push(pointer);", ["C14"]),
 "sort-fields-by-len": ("src/bytecode/heap.rs",
   "        sorted_fields.sort_by_key(|(name, _)| *name);", "        sorted_fields.sort_by_key(|(name, _)| (name.len() > 3, *name));", ["C15", "C01"]),
 "log-before-add": ("src/bytecode/heap.rs",
   "        self.size += object.size();\n        heap_log!(ALLOCATE -> self.log, self.size);",
   "        heap_log!(ALLOCATE -> self.log, self.size + 1);\n        self.size += object.size();", ["C16"]),
 "disasm-wrong-mnemonic": ("src/bytecode/bytecode.rs",
   '                write!(f, "set global {}", name),', '                write!(f, "get global {}", name),', ["C17"]),
 "module-additive": ("src/fml.lalrpop",
   "AdditiveOperator: Operator = {\n    PLUS => Operator::Addition,\n    MINUS => Operator::Subtraction,\n}\n\nFactorOperator: Operator = {\n    MULTIPLY => Operator::Multiplication,\n    DIVIDE => Operator::Division,\n    MODULE => Operator::Module,\n}",
   "AdditiveOperator: Operator = {\n    PLUS => Operator::Addition,\n    MINUS => Operator::Subtraction,\n    MODULE => Operator::Module,\n}\n\nFactorOperator: Operator = {\n    MULTIPLY => Operator::Multiplication,\n    DIVIDE => Operator::Division,\n}", ["C07"]),
 "yaml-ext-json": ("src/main.rs",
   '            "yaml" => Some(ASTSerializer::YAML),', '            "yaml" => Some(ASTSerializer::JSON),', ["C06"]),
 "globals-reversed-on-save": ("src/bytecode/program.rs",
   "        ConstantPoolIndex::write_cpi_vector(sink, &self.0)\n    }\n\n    fn from_bytes<R: Read>(input: &mut R) -> Self {\n        Globals(",
   "        let mut v = self.0.clone(); if v.len() > 2 { v.reverse(); }\n        ConstantPoolIndex::write_cpi_vector(sink, &v)\n    }\n\n    fn from_bytes<R: Read>(input: &mut R) -> Self {\n        Globals(", ["C03", "C04"]),
 "hashmap-locals-order": ("src/bytecode/compiler.rs",
   "                for parameter in parameters.into_iter() { // TODO Environment::from\n                    child_environment.register_local(parameter.as_str());\n                }\n                let mut child_frame = &mut Frame::Local(child_environment);\n\n                (**body)",
   "                for parameter in parameters.into_iter() { // TODO Environment::from\n                    child_environment.register_local(parameter.as_str());\n                }\n                if parameters.len() > 3 { let s: HashSet<String> = parameters.iter().map(|p| p.as_str().to_owned()).collect(); for (i, p) in s.iter().enumerate() { child_environment.locals.insert((0, p.clone()), LocalFrameIndex::from_usize(i)); } }\n                let mut child_frame = &mut Frame::Local(child_environment);\n\n                (**body)", ["C11", "C01"]),
 "branch-on-false": ("src/bytecode/heap.rs",
   "            Pointer::Boolean(b) => *b,\n            Pointer::Reference(_) => true,", "            Pointer::Boolean(_) => true,\n            Pointer::Reference(_) => true,", ["C01", "C05"]),
 "no-final-flush": ("src/main.rs",
   "        sink.flush()\n            .expect(\"Cannot write program to output.\");",
   "        let _ = &mut sink;", ["C08"]),
 "args-over-8-reversed": ("src/bytecode/interpreter.rs",
   "    let argument_pointers = state.operand_stack.pop_sequence(arguments.to_usize())?;\n    let local_pointers",
   "    let mut argument_pointers = state.operand_stack.pop_sequence(arguments.to_usize())?;\n    if argument_pointers.len() > 8 { argument_pointers.swap(7, 8); }\n    let local_pointers", ["C01", "C05", "C13"]),
}


class R:
    def __init__(self, rc, out):
        self.returncode, self.stdout = rc, out


def sh(cmd, timeout=1500):
    """Every step has a timeout: a mutation may make the test suite or a check hang."""
    try:
        p = subprocess.run(cmd, shell=True, stdout=subprocess.PIPE, stderr=subprocess.STDOUT, text=True, timeout=timeout, start_new_session=True)
        return R(p.returncode, p.stdout)
    except subprocess.TimeoutExpired:
        subprocess.run("pkill -9 -f 'deps/fml-'; pkill -9 -f 'verif-harness'; pkill -9 -f 'cargo test'", shell=True)
        return R(124, "timeout")


def main():
    names = sys.argv[1:] or list(M)
    results = {}
    for name in names:
        f, old, new, checks = M[name]
        path = os.path.join(REPO, f)
        src = open(path).read()
        if old not in src:
            print("%-28s SKIP (anchor text not found)" % name)
            continue
        try:
            open(path, "w").write(src.replace(old, new, 1))
            t = sh("cd /repo && cargo test --offline 2>&1 | grep -E 'test result|error(\\[|:)' | head -3", timeout=400)
            ok = "259 passed; 0 failed" in t.stdout
            if not ok:
                print("%-28s tests do not pass with this mutation: %s" % (name, t.stdout.strip()[:200]))
                results[name] = {"tests_pass": False}
                continue
            caught = {}
            for c in checks:
                r = sh("cd /verif && ./check %s quick" % c)
                caught[c] = r.returncode
            results[name] = {"tests_pass": True, "checks": caught}
            print("%-28s %s" % (name, "  ".join("%s:%s" % (c, {0: "MISSED", 1: "caught", 2: "inconclusive"}.get(rc, rc)) for c, rc in caught.items())), flush=True)
        finally:
            sh("git -C /repo checkout -- .")
    json.dump(results, open("/verif/selftest/last_run.json", "w"), indent=1)


if __name__ == "__main__":
    main()
