#!/usr/bin/env python3
"""Store a red-team round under /verif/seeded and print the DESIGN.md table rows.

  save_round.py <round-tag> <worktree-root> <blind-results.json> <final-results.json>
"""
import json, os, shutil, sys, glob, re

tag, root, blind_p, final_p = sys.argv[1:5]
blind = json.load(open(blind_p))
final = json.load(open(final_p))
rows = []
for key in sorted(final):
    agent, n = key.rsplit("-", 1)
    out = os.path.join(root, agent, "_out")
    meta_a = json.load(open(os.path.join(out, "meta%s.json" % n)))
    fin, bl = final[key], blind.get(key, {})
    cid = fin.get("property") or re.search(r"C\d\d", meta_a.get("property", "")).group(0)
    dst = "/verif/seeded/%s-%s" % (tag, key)
    os.makedirs(dst, exist_ok=True)
    shutil.copy(os.path.join(out, "patch%s.diff" % n), os.path.join(dst, "patch.diff"))
    for f in glob.glob(os.path.join(out, "demo%s*" % n)):
        if os.path.isdir(f):
            shutil.copytree(f, os.path.join(dst, os.path.basename(f)), dirs_exist_ok=True)
        else:
            shutil.copy(f, dst)
    st = lambda d: {c: {0: "silent", 1: "VIOLATION", 2: "inconclusive", 124: "timeout"}.get(v, str(v)) for c, v in d.get("checks", {}).items()}
    meta = {
        "property": cid,
        "property_as_named_by_author": meta_a.get("property"),
        "origin": "independent sub-agent, round %s (red-team framing: given the 17 property texts, a scratch worktree, a list of ideas already used and a generic description of the framework - nothing from /verif; asked for bugs it would miss)" % tag[1:],
        "summary": meta_a.get("summary"), "needs": meta_a.get("needs"), "why_hard_to_find": meta_a.get("why_hard_to_find"), "author_ran": meta_a.get("ran"),
        "confirmed_by_me": {"tests_pass_with_patch": fin.get("tests_pass_with_patch"), "demo_exit_with_patch": fin.get("demo_with_patch"), "demo_exit_without_patch": fin.get("demo_without_patch"),
                            "how": "selftest/seeded.py: in the scratch worktree: git apply patch; cargo test --offline; cargo build; bash demoN.sh; git checkout -- src; cargo build; bash demoN.sh"},
        "checks_first_pass_blind": st(bl), "checks_final": st(fin), "own_check_output_final": fin.get("own_check_output", "")[:1500],
        "ran": "git -C /repo apply patch.diff; ./check <ID> quick; git -C /repo checkout -- .",
    }
    json.dump(meta, open(os.path.join(dst, "meta.json"), "w"), indent=1)
    bc = [c for c, v in bl.get("checks", {}).items() if v == 1]
    fc = [c for c, v in fin.get("checks", {}).items() if v == 1]
    first = "caught" if cid in bc else ("missed; caught by " + ",".join(sorted(bc)) if bc else "missed by all")
    last = "caught by " + ",".join(sorted(fc)) + ("" if cid in fc else " (not by %s)" % cid)
    rows.append("| %s-%s | %s | %s | %s | %s |" % (tag, key, cid, (meta_a.get("summary") or "").replace("|", "/").replace("\n", " ")[:100], first, last))
print("| id | property | change | first (blind) run | final |\n|---|---|---|---|---|")
print("\n".join(rows))
