#!/bin/bash
# runs every thorough check once, with a timeout each; log in selftest/thorough.log
cd /verif
for c in "$@"; do
  s=$(date +%s)
  timeout 5400 ./check $c thorough > selftest/thorough-$c.out 2>&1
  rc=$?
  e=$(date +%s)
  echo "$c rc=$rc $((e-s))s $(grep -E 'thorough:' selftest/thorough-$c.out | cut -c1-160)" >> selftest/thorough.log
  grep -E "VIOLATION|INCONCLUSIVE" selftest/thorough-$c.out | cut -c1-300 >> selftest/thorough.log
done
echo DONE >> selftest/thorough.log
