//! Conversions between FML's in-memory `Program` and the harness's own
//! `bcfmt::Prog`, using only FML's public API (no serializer involved).

use crate::bytecode::bytecode::OpCode;
use crate::bytecode::program::*;

use super::bcfmt::{Const, Ins, Prog};

pub fn ins_from_opcode(op: &OpCode) -> Ins {
    match op {
        OpCode::Label { name } => Ins::Label(name.value()),
        OpCode::Literal { index } => Ins::Lit(index.value()),
        OpCode::Print { format, arguments } => Ins::Print(format.value(), arguments.value()),
        OpCode::Array => Ins::Array,
        OpCode::Object { class } => Ins::Object(class.value()),
        OpCode::GetField { name } => Ins::GetSlot(name.value()),
        OpCode::SetField { name } => Ins::SetSlot(name.value()),
        OpCode::CallMethod { name, arguments } => Ins::CallSlot(name.value(), arguments.value()),
        OpCode::CallFunction { name, arguments } => Ins::Call(name.value(), arguments.value()),
        OpCode::SetLocal { index } => Ins::SetLocal(index.value()),
        OpCode::GetLocal { index } => Ins::GetLocal(index.value()),
        OpCode::SetGlobal { name } => Ins::SetGlobal(name.value()),
        OpCode::GetGlobal { name } => Ins::GetGlobal(name.value()),
        OpCode::Branch { label } => Ins::Branch(label.value()),
        OpCode::Jump { label } => Ins::Goto(label.value()),
        OpCode::Return => Ins::Return,
        OpCode::Drop => Ins::Drop,
    }
}

pub fn opcode_from_ins(i: &Ins) -> OpCode {
    let c = |x: &u16| ConstantPoolIndex::new(*x);
    let l = |x: &u16| LocalFrameIndex::new(*x);
    match i {
        Ins::Label(a) => OpCode::Label { name: c(a) },
        Ins::Lit(a) => OpCode::Literal { index: c(a) },
        Ins::Print(a, n) => OpCode::Print { format: c(a), arguments: Arity::new(*n) },
        Ins::Array => OpCode::Array,
        Ins::Object(a) => OpCode::Object { class: c(a) },
        Ins::GetSlot(a) => OpCode::GetField { name: c(a) },
        Ins::SetSlot(a) => OpCode::SetField { name: c(a) },
        Ins::CallSlot(a, n) => OpCode::CallMethod { name: c(a), arguments: Arity::new(*n) },
        Ins::Call(a, n) => OpCode::CallFunction { name: c(a), arguments: Arity::new(*n) },
        Ins::SetLocal(a) => OpCode::SetLocal { index: l(a) },
        Ins::GetLocal(a) => OpCode::GetLocal { index: l(a) },
        Ins::SetGlobal(a) => OpCode::SetGlobal { name: c(a) },
        Ins::GetGlobal(a) => OpCode::GetGlobal { name: c(a) },
        Ins::Branch(a) => OpCode::Branch { label: c(a) },
        Ins::Goto(a) => OpCode::Jump { label: c(a) },
        Ins::Return => OpCode::Return,
        Ins::Drop => OpCode::Drop,
    }
}

/// Read a `Program` through its public API into a `Prog`. Each method is
/// captured by its instruction *sequence* (materialised from its address
/// range), not by the range itself. Also returns the (start, length) of
/// every method constant so that callers can check the partition of code.
pub fn prog_from_program(p: &Program) -> Result<(Prog, Vec<(usize, usize, usize)>), String> {
    let mut consts = Vec::new();
    let mut ranges = Vec::new();
    for (i, c) in p.constant_pool.iter().enumerate() {
        let k = match c {
            ProgramObject::Integer(n) => Const::Int(*n),
            ProgramObject::Boolean(b) => Const::Bool(*b),
            ProgramObject::Null => Const::Null,
            ProgramObject::String(s) => Const::Str(s.clone()),
            ProgramObject::Slot { name } => Const::Slot(name.value()),
            ProgramObject::Class(v) => Const::Class(v.iter().map(|x| x.value()).collect()),
            ProgramObject::Method { name, parameters, locals, code } => {
                let ops = p.code.materialize(code).map_err(|e| format!("method #{}: {}", i, e))?;
                ranges.push((i, code.start().value_usize(), code.length()));
                Const::Method {
                    name: name.value(),
                    arity: parameters.value(),
                    locals: locals.value(),
                    code: ops.into_iter().map(ins_from_opcode).collect(),
                }
            }
        };
        consts.push(k);
    }
    let globals = p.globals.iter().map(|g| g.value()).collect();
    let entry = p.entry.get().map_err(|e| format!("entry: {}", e))?.value();
    Ok((Prog { consts, globals, entry }, ranges))
}

/// Build a `Program` directly (no bytes involved) from a `Prog`. `order`
/// gives the order in which method bodies are laid out in the flat code
/// vector (indices into `consts`); it must mention every method once.
pub fn program_from_prog(prog: &Prog, order: &[usize]) -> Result<Program, String> {
    let mut code = Code::new();
    let mut ranges: std::collections::HashMap<usize, AddressRange> = std::collections::HashMap::new();
    for &mi in order {
        if let Const::Method { code: ins, .. } = &prog.consts[mi] {
            let r = code.append(ins.iter().map(opcode_from_ins).collect());
            ranges.insert(mi, r);
        } else {
            return Err(format!("order mentions non-method #{}", mi));
        }
    }
    let mut objs = Vec::new();
    for (i, c) in prog.consts.iter().enumerate() {
        objs.push(match c {
            Const::Int(n) => ProgramObject::Integer(*n),
            Const::Null => ProgramObject::Null,
            Const::Bool(b) => ProgramObject::Boolean(*b),
            Const::Str(s) => ProgramObject::String(s.clone()),
            Const::Slot(n) => ProgramObject::Slot { name: ConstantPoolIndex::new(*n) },
            Const::Class(v) => ProgramObject::Class(v.iter().map(|x| ConstantPoolIndex::new(*x)).collect()),
            Const::Method { name, arity, locals, .. } => ProgramObject::Method {
                name: ConstantPoolIndex::new(*name),
                parameters: Arity::new(*arity),
                locals: Size::new(*locals),
                code: *ranges.get(&i).ok_or_else(|| format!("method #{} missing from order", i))?,
            },
        });
    }
    let globals = Globals::from(prog.globals.iter().map(|g| ConstantPoolIndex::new(*g)).collect::<Vec<_>>());
    let entry = Entry::from(prog.entry);
    Program::from(code, ConstantPool::from(objs), globals, entry).map_err(|e| format!("{:#}", e))
}
