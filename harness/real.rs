//! Thin wrappers around the *subject under test* (FML's parser, compiler,
//! serializer, VM), restricted to a narrow, stable API surface. Every call is
//! wrapped in catch_unwind: FML reports many errors by panicking.

use std::panic::{catch_unwind, AssertUnwindSafe};

use crate::bytecode::interpreter::{eval_opcode, evaluate_with};
use crate::bytecode::program::Program;
use crate::bytecode::serializable::Serializable;
use crate::bytecode::state::State;
use crate::fml::TopLevelParser;
use crate::parser::AST;

thread_local! {
    static LAST_PANIC: std::cell::RefCell<String> = std::cell::RefCell::new(String::new());
}

pub fn install_quiet_panic_hook() {
    std::panic::set_hook(Box::new(|info| {
        let msg = format!("{}", info);
        LAST_PANIC.with(|p| *p.borrow_mut() = msg);
    }));
}

fn guarded<T>(f: impl FnOnce() -> Result<T, String>) -> Result<T, String> {
    match catch_unwind(AssertUnwindSafe(f)) {
        Ok(r) => r,
        Err(_) => {
            let m = LAST_PANIC.with(|p| p.borrow().clone());
            Err(format!("panic: {}", m))
        }
    }
}

thread_local! {
    // One parser per worker thread, like one per `fml` process. Constructing a parser compiles the
    // lexer's regexes, which is slow and leaves allocations behind (≈ 100 KB per construction with
    // the pinned regex / thread_local versions): a worker that built one per case grew by 100 MB/s.
    static PARSER: TopLevelParser = TopLevelParser::new();
}

pub fn parse(src: &str) -> Result<AST, String> {
    guarded(|| PARSER.with(|p| p.parse(src).map_err(|e| format!("parse error: {:?}", e))))
}

pub fn compile(ast: &AST) -> Result<Program, String> {
    guarded(|| crate::bytecode::compile(ast).map_err(|e| format!("{:#}", e)))
}

pub fn serialize(p: &Program) -> Result<Vec<u8>, String> {
    guarded(|| {
        let mut v: Vec<u8> = Vec::new();
        p.serialize(&mut v).map_err(|e| format!("{:#}", e))?;
        Ok(v)
    })
}

pub fn load(bytes: &[u8]) -> Result<Program, String> {
    guarded(|| {
        let mut cur = std::io::Cursor::new(bytes);
        Ok(Program::from_bytes(&mut cur))
    })
}

pub fn disassemble(p: &Program) -> Result<String, String> {
    guarded(|| Ok(format!("{}", p)))
}

#[derive(Clone, Debug, PartialEq)]
pub struct Run {
    pub out: String,
    pub ok: bool,
    pub err: String,
    pub steps: u64,
    /// the step cap was hit (logical non-termination relative to the reference)
    pub capped: bool,
}

/// Run by single-stepping `eval_opcode` under a logical step cap.
pub fn run_stepped(p: &Program, cap: u64) -> Run {
    let mut out = String::new();
    let mut steps = 0u64;
    let mut capped = false;
    let r = guarded(|| {
        let mut state = State::from(p).map_err(|e| format!("{:#}", e))?;
        while let Some(address) = state.instruction_pointer.get() {
            if steps >= cap {
                capped = true;
                return Err("step cap".to_string());
            }
            steps += 1;
            let opcode = p.code.get(address).map_err(|e| format!("{:#}", e))?;
            eval_opcode(p, &mut state, &mut out, opcode).map_err(|e| format!("{:#}", e))?;
        }
        Ok(())
    });
    match r {
        Ok(()) => Run { out, ok: true, err: String::new(), steps, capped },
        Err(e) => Run { out, ok: false, err: e, steps, capped },
    }
}

/// Run through FML's own fetch loop `evaluate_with` (no cap: only call when a stepped
/// run of the same program terminated).
pub fn run_native(p: &Program) -> Run {
    let mut out = String::new();
    let r = guarded(|| {
        let mut state = State::from(p).map_err(|e| format!("{:#}", e))?;
        evaluate_with(p, &mut state, &mut out).map_err(|e| format!("{:#}", e))
    });
    match r {
        Ok(()) => Run { out, ok: true, err: String::new(), steps: 0, capped: false },
        Err(e) => Run { out, ok: false, err: e, steps: 0, capped: false },
    }
}

/// The whole `fml run` pipeline in-process: parse, compile, serialize, load, interpret.
pub struct Pipeline {
    pub ast: Option<AST>,
    pub bytes: Option<Vec<u8>>,
    pub stage_error: Option<(String, String)>,
    pub run: Option<Run>,
}

pub fn pipeline_from_ast(ast: &AST, cap: u64, through_bytes: bool) -> Pipeline {
    let prog = match compile(ast) {
        Ok(p) => p,
        Err(e) => return Pipeline { ast: None, bytes: None, stage_error: Some(("compile".into(), e)), run: None },
    };
    if !through_bytes {
        let run = run_stepped(&prog, cap);
        return Pipeline { ast: None, bytes: None, stage_error: None, run: Some(run) };
    }
    let bytes = match serialize(&prog) {
        Ok(b) => b,
        Err(e) => return Pipeline { ast: None, bytes: None, stage_error: Some(("serialize".into(), e)), run: None },
    };
    let loaded = match load(&bytes) {
        Ok(p) => p,
        Err(e) => return Pipeline { ast: None, bytes: Some(bytes), stage_error: Some(("load".into(), e)), run: None },
    };
    let run = run_stepped(&loaded, cap);
    Pipeline { ast: None, bytes: Some(bytes), stage_error: None, run: Some(run) }
}

pub fn pipeline_from_source(src: &str, cap: u64) -> Pipeline {
    match parse(src) {
        Err(e) => Pipeline { ast: None, bytes: None, stage_error: Some(("parse".into(), e)), run: None },
        Ok(ast) => {
            let mut p = pipeline_from_ast(&ast, cap, true);
            p.ast = Some(ast);
            p
        }
    }
}
