//! Reference semantics for FML source programs (AST level), written from the
//! README and DESIGN.md Appendix A. A plain big-step evaluator with lexical
//! scoping resolved by an independent textual-order resolver. It shares no
//! structure with FML's compiler: no slots, no keep_result, no labels, no
//! operand stack.
//!
//! The evaluator is three-valued about its own applicability: besides a
//! result (success / failure + output) it can say `OutOfFragment` (the
//! program leaves the fragment where the documentation pins the behaviour,
//! e.g. reads a variable whose `let` has not run) or `Ambiguous` (behaviour
//! not pinned by the properties, e.g. printing a cyclic value).

use crate::parser::{Identifier, AST};
use std::collections::{HashMap, HashSet};
use std::rc::Rc;

use super::prim::*;

#[derive(Clone, Debug)]
pub struct MethodDef<'a> {
    pub params: Vec<String>,
    pub body: &'a AST,
}

pub type Obj<'a> = HObj<Rc<MethodDef<'a>>>;

#[derive(Clone, Debug, PartialEq, Eq, Hash)]
pub enum Alloc {
    Array(usize),
    Object { fields: Vec<String>, methods: Vec<String> },
}

#[derive(Clone, Debug, PartialEq)]
pub enum Res {
    Ok,
    /// The documented rules make the program fail at this point.
    Fail(String),
    /// Rejected before execution (same-scope redefinition, duplicate function...).
    Static(String),
    /// Step budget exhausted: case discarded.
    Fuel,
    /// Outside the judged fragment: only crash-freedom may be judged.
    OutOfFragment(String),
    /// Behaviour not pinned by the properties.
    Ambiguous(String),
}

#[derive(Clone, Debug)]
pub struct Outcome {
    pub out: String,
    pub res: Res,
    pub allocs: Vec<Alloc>,
    pub steps: u64,
    pub max_call_depth: usize,
    /// static hazard: a `let` in a later-compiled sibling (else-branch / loop body)
    /// is used by an earlier one (then-branch / loop condition) resolving outwards
    pub order_hazard: Option<String>,
    pub kinds: HashSet<&'static str>,
}

impl Outcome {
    pub fn judged(&self) -> bool {
        matches!(self.res, Res::Ok | Res::Fail(_))
    }
    pub fn failed(&self) -> bool {
        matches!(self.res, Res::Fail(_))
    }
}

enum Stop {
    Fail(String),
    Fuel,
    Oof(String),
    Amb(String),
}

type R = Result<V, Stop>;

#[derive(Clone, Debug)]
enum Resn {
    /// `up` environments outward from the innermost one of the current frame
    Local(usize),
    Global,
}

// ---------------------------------------------------------------------------------------------
// Resolver: textual-order lexical resolution + static failure detection

struct Resolver {
    table: HashMap<usize, Resn>,
    static_fail: Option<String>,
    hazard: Option<String>,
    global_names: HashSet<String>,
    /// scope stack of the body being walked; index 0 is the outermost scope of the frame.
    scopes: Vec<HashSet<String>>,
    /// true while walking the top-level frame (scope stack empty = globals)
    top: bool,
    /// collection of uses resolving outward beyond a watched scope depth
    watch: Vec<(usize, Vec<String>)>,
}

fn key(a: &AST) -> usize {
    a as *const AST as usize
}

impl Resolver {
    fn sfail(&mut self, s: String) {
        if self.static_fail.is_none() {
            self.static_fail = Some(s);
        }
    }
    fn declare(&mut self, name: &str) {
        if self.top && self.scopes.is_empty() {
            if !self.global_names.insert(name.to_owned()) {
                self.sfail(format!("global {} defined twice", name));
            }
        } else {
            let s = self.scopes.last_mut().unwrap();
            if !s.insert(name.to_owned()) {
                self.sfail(format!("variable {} defined twice in one scope", name));
            }
        }
    }
    fn resolve(&mut self, node: &AST, name: &str) {
        let n = self.scopes.len();
        let mut found = None;
        for up in 0..n {
            if self.scopes[n - 1 - up].contains(name) {
                found = Some(up);
                break;
            }
        }
        // target depth: index of the scope that holds it, or -1 for global
        let target: isize = match found {
            Some(up) => (n - 1 - up) as isize,
            None => -1,
        };
        for (depth, names) in self.watch.iter_mut() {
            // `depth` = number of block scopes when the watch started; the watched scope has
            // index depth-1 (or is the global scope, index -1, when depth is 0). A use is
            // "outward" when it resolves strictly outside the watched scope.
            if target < (*depth as isize) - 1 {
                names.push(name.to_owned());
            }
        }
        self.table.insert(key(node), match found {
            Some(up) => Resn::Local(up),
            None => Resn::Global,
        });
    }
    /// names declared directly in the current scope (for hazard detection)
    fn current_decls(&self) -> HashSet<String> {
        if self.top && self.scopes.is_empty() {
            self.global_names.clone()
        } else {
            self.scopes.last().cloned().unwrap_or_default()
        }
    }
    fn walk(&mut self, a: &AST, pos: Pos) {
        match a {
            AST::Integer(_) | AST::Boolean(_) | AST::Null => {}
            AST::Variable { name, value } => {
                self.walk(value, Pos::Expr);
                self.declare(name.as_str());
                // the let node itself binds in the innermost scope
            }
            AST::AccessVariable { name } => self.resolve(a, name.as_str()),
            AST::AssignVariable { name, value } => {
                // FML's compiler resolves the target before compiling the value
                self.resolve(a, name.as_str());
                self.walk(value, Pos::Expr);
            }
            AST::Array { size, value } => {
                self.walk(size, Pos::Expr);
                if is_simple_init(value) {
                    self.walk(value, Pos::Expr);
                } else {
                    self.scopes.push(HashSet::new());
                    self.walk(value, Pos::Expr);
                    self.scopes.pop();
                }
            }
            AST::Object { extends, members } => {
                self.walk(extends, Pos::Expr);
                for m in members {
                    match &**m {
                        AST::Variable { value, .. } => self.walk(value, Pos::Expr),
                        AST::Function { name: _, parameters, body } => {
                            self.walk_function(parameters, body, true);
                        }
                        other => self.sfail(format!("object member is not a field or method: {}", node_kind(other))),
                    }
                }
            }
            AST::AccessField { object, .. } => self.walk(object, Pos::Expr),
            AST::AccessArray { array, index } => {
                self.walk(array, Pos::Expr);
                self.walk(index, Pos::Expr);
            }
            AST::AssignField { object, value, .. } => {
                self.walk(object, Pos::Expr);
                self.walk(value, Pos::Expr);
            }
            AST::AssignArray { array, index, value } => {
                self.walk(array, Pos::Expr);
                self.walk(index, Pos::Expr);
                self.walk(value, Pos::Expr);
            }
            AST::Function { name: _, parameters, body } => {
                if pos != Pos::TopStmt {
                    // not in the parser's range; the evaluator reports out-of-fragment
                }
                self.walk_function(parameters, body, false);
            }
            AST::CallFunction { arguments, .. } => {
                if arguments.len() > 255 {
                    self.sfail("more than 255 arguments".into());
                }
                for x in arguments {
                    self.walk(x, Pos::Expr);
                }
            }
            AST::CallMethod { object, arguments, .. } => {
                if arguments.len() > 254 {
                    self.sfail("more than 254 method arguments".into());
                }
                self.walk(object, Pos::Expr);
                for x in arguments {
                    self.walk(x, Pos::Expr);
                }
            }
            AST::Top(ss) => {
                for s in ss {
                    self.walk(s, Pos::TopStmt);
                }
            }
            AST::Block(ss) => {
                self.scopes.push(HashSet::new());
                for s in ss {
                    self.walk(s, Pos::Expr);
                }
                self.scopes.pop();
            }
            AST::Loop { condition, body } => {
                // FML compiles the body before the condition; textual order is the
                // reference. A `let` made directly in this scope by the body and used by
                // the condition (resolving outwards) is an order hazard.
                self.watch.push((self.scopes.len(), Vec::new()));
                self.walk(condition, Pos::Expr);
                let (_, used) = self.watch.pop().unwrap();
                let mid = self.current_decls();
                self.walk(body, Pos::Expr);
                let after = self.current_decls();
                for n in after.difference(&mid) {
                    if used.contains(n) {
                        self.hazard.get_or_insert(format!("loop condition uses {} which the loop body declares in the same scope", n));
                    }
                }
            }
            AST::Conditional { condition, consequent, alternative } => {
                // FML compiles the else-branch before the then-branch.
                self.walk(condition, Pos::Expr);
                self.watch.push((self.scopes.len(), Vec::new()));
                self.walk(consequent, Pos::Expr);
                let (_, used) = self.watch.pop().unwrap();
                let mid = self.current_decls();
                self.walk(alternative, Pos::Expr);
                let after = self.current_decls();
                for n in after.difference(&mid) {
                    if used.contains(n) {
                        self.hazard.get_or_insert(format!("then-branch uses {} which the else-branch declares in the same scope", n));
                    }
                }
            }
            AST::Print { arguments, .. } => {
                if arguments.len() > 255 {
                    self.sfail("more than 255 print arguments".into());
                }
                for x in arguments {
                    self.walk(x, Pos::Expr);
                }
            }
        }
    }

    fn walk_function(&mut self, params: &Vec<Identifier>, body: &AST, method: bool) {
        let saved_scopes = std::mem::take(&mut self.scopes);
        let saved_top = self.top;
        let saved_watch = std::mem::take(&mut self.watch);
        self.top = false;
        let mut first = HashSet::new();
        if method {
            first.insert("this".to_owned());
        }
        for p in params {
            if !first.insert(p.as_str().to_owned()) {
                self.sfail(format!("duplicate parameter {}", p.as_str()));
            }
        }
        if params.len() + (method as usize) > 255 {
            self.sfail("more than 255 parameters".into());
        }
        self.scopes.push(first);
        self.walk(body, Pos::Expr);
        self.scopes = saved_scopes;
        self.top = saved_top;
        self.watch = saved_watch;
    }
}

#[derive(Clone, Copy, PartialEq)]
enum Pos {
    TopStmt,
    Expr,
}

pub fn is_simple_init(a: &AST) -> bool {
    matches!(a, AST::Integer(_) | AST::Boolean(_) | AST::Null | AST::AccessVariable { .. } | AST::AccessField { .. })
}

pub fn node_kind(a: &AST) -> &'static str {
    match a {
        AST::Integer(_) => "Integer",
        AST::Boolean(_) => "Boolean",
        AST::Null => "Null",
        AST::Variable { .. } => "Variable",
        AST::Array { .. } => "Array",
        AST::Object { .. } => "Object",
        AST::AccessVariable { .. } => "AccessVariable",
        AST::AccessField { .. } => "AccessField",
        AST::AccessArray { .. } => "AccessArray",
        AST::AssignVariable { .. } => "AssignVariable",
        AST::AssignField { .. } => "AssignField",
        AST::AssignArray { .. } => "AssignArray",
        AST::Function { .. } => "Function",
        AST::CallFunction { .. } => "CallFunction",
        AST::CallMethod { .. } => "CallMethod",
        AST::Top(_) => "Top",
        AST::Block(_) => "Block",
        AST::Loop { .. } => "Loop",
        AST::Conditional { .. } => "Conditional",
        AST::Print { .. } => "Print",
    }
}

// ---------------------------------------------------------------------------------------------
// Evaluator

struct Sem<'a> {
    table: HashMap<usize, Resn>,
    global_names: HashSet<String>,
    funcs: HashMap<String, Rc<MethodDef<'a>>>,
    heap: Vec<Obj<'a>>,
    globals: HashMap<String, V>,
    out: String,
    steps: u64,
    fuel: u64,
    allocs: Vec<Alloc>,
    frames: Vec<Vec<HashMap<String, V>>>,
    max_depth: usize,
    depth_limit: usize,
    max_array: usize,
    kinds: HashSet<&'static str>,
}

impl<'a> Sem<'a> {
    fn tick(&mut self) -> Result<(), Stop> {
        self.steps += 1;
        if self.steps > self.fuel {
            Err(Stop::Fuel)
        } else {
            Ok(())
        }
    }

    fn envs(&mut self) -> &mut Vec<HashMap<String, V>> {
        self.frames.last_mut().unwrap()
    }

    fn bind(&mut self, name: &str, v: V) {
        let is_top = self.frames.len() == 1;
        let envs = self.frames.last_mut().unwrap();
        if envs.is_empty() {
            debug_assert!(is_top);
            self.globals.insert(name.to_owned(), v);
        } else {
            envs.last_mut().unwrap().insert(name.to_owned(), v);
        }
    }

    fn lookup(&mut self, node: &AST, name: &str) -> R {
        match self.table.get(&key(node)) {
            Some(Resn::Local(up)) => {
                let envs = self.frames.last().unwrap();
                let n = envs.len();
                if *up >= n {
                    return Err(Stop::Oof(format!("internal: scope depth mismatch for {}", name)));
                }
                match envs[n - 1 - up].get(name) {
                    Some(v) => Ok(*v),
                    None => Err(Stop::Oof(format!("read of {} before its let ran", name))),
                }
            }
            Some(Resn::Global) => match self.globals.get(name) {
                Some(v) => Ok(*v),
                None => {
                    if self.global_names.contains(name) {
                        Err(Stop::Oof(format!("read of global {} before its let ran", name)))
                    } else {
                        Err(Stop::Fail(format!("undefined variable {}", name)))
                    }
                }
            },
            None => Err(Stop::Oof(format!("internal: unresolved {}", name))),
        }
    }

    fn assign(&mut self, node: &AST, name: &str, v: V) -> Result<(), Stop> {
        match self.table.get(&key(node)) {
            Some(Resn::Local(up)) => {
                let envs = self.frames.last_mut().unwrap();
                let n = envs.len();
                if *up >= n {
                    return Err(Stop::Oof(format!("internal: scope depth mismatch for {}", name)));
                }
                match envs[n - 1 - up].get_mut(name) {
                    Some(slot) => {
                        *slot = v;
                        Ok(())
                    }
                    None => Err(Stop::Oof(format!("assignment to {} before its let ran", name))),
                }
            }
            Some(Resn::Global) => match self.globals.get_mut(name) {
                Some(slot) => {
                    *slot = v;
                    Ok(())
                }
                None => {
                    if self.global_names.contains(name) {
                        Err(Stop::Oof(format!("assignment to global {} before its let ran", name)))
                    } else {
                        Err(Stop::Fail(format!("assignment to undefined variable {}", name)))
                    }
                }
            },
            None => Err(Stop::Oof(format!("internal: unresolved {}", name))),
        }
    }

    fn alloc(&mut self, o: Obj<'a>) -> V {
        let shape = match &o {
            HObj::Array(v) => Alloc::Array(v.len()),
            HObj::Object { fields, methods, .. } => Alloc::Object {
                fields: fields.iter().map(|f| f.0.clone()).collect(),
                methods: methods.iter().map(|m| m.0.clone()).collect(),
            },
        };
        self.allocs.push(shape);
        self.heap.push(o);
        V::Ref(self.heap.len() - 1)
    }

    fn eval(&mut self, a: &'a AST) -> R {
        self.tick()?;
        self.kinds.insert(node_kind(a));
        match a {
            AST::Integer(i) => Ok(V::Int(*i)),
            AST::Boolean(b) => Ok(V::Bool(*b)),
            AST::Null => Ok(V::Null),
            AST::Variable { name, value } => {
                let v = self.eval(value)?;
                self.bind(name.as_str(), v);
                Ok(v)
            }
            AST::AccessVariable { name } => self.lookup(a, name.as_str()),
            AST::AssignVariable { name, value } => {
                let v = self.eval(value)?;
                self.assign(a, name.as_str(), v)?;
                Ok(v)
            }
            AST::Conditional { condition, consequent, alternative } => {
                if self.eval(condition)?.truthy() {
                    self.eval(consequent)
                } else {
                    self.eval(alternative)
                }
            }
            AST::Loop { condition, body } => {
                while self.eval(condition)?.truthy() {
                    self.eval(body)?;
                }
                Ok(V::Null)
            }
            AST::Block(ss) => {
                self.envs().push(HashMap::new());
                let mut last = Ok(V::Null);
                for s in ss {
                    last = self.eval(s);
                    if last.is_err() {
                        break;
                    }
                }
                self.envs().pop();
                last
            }
            AST::Array { size, value } => {
                let n = self.eval(size)?;
                if is_simple_init(value) {
                    let v = self.eval(value)?;
                    let len = array_len(n, self.max_array)?;
                    Ok(self.alloc(HObj::Array(vec![v; len])))
                } else {
                    let len = array_len(n, self.max_array)?;
                    let arr = self.alloc(HObj::Array(vec![V::Null; len]));
                    let idx = if let V::Ref(r) = arr { r } else { unreachable!() };
                    for k in 0..len {
                        self.envs().push(HashMap::new());
                        let r = self.eval(value);
                        self.envs().pop();
                        let v = r?;
                        if let HObj::Array(es) = &mut self.heap[idx] {
                            es[k] = v;
                        }
                        // the hidden loop: `::i <- ::i + 1; ::i < ::size`
                        self.steps += 2;
                    }
                    Ok(arr)
                }
            }
            AST::AccessArray { array, index } => {
                let r = self.eval(array)?;
                let i = self.eval(index)?;
                self.call(r, "get", vec![i])
            }
            AST::AssignArray { array, index, value } => {
                let r = self.eval(array)?;
                let i = self.eval(index)?;
                let v = self.eval(value)?;
                self.call(r, "set", vec![i, v])
            }
            AST::AccessField { object, field } => {
                let r = self.eval(object)?;
                match r {
                    V::Ref(o) => match &self.heap[o] {
                        HObj::Object { fields, .. } => match fields.iter().find(|f| f.0 == field.as_str()) {
                            Some(f) => Ok(f.1),
                            None => Err(Stop::Fail(format!("no field {}", field.as_str()))),
                        },
                        HObj::Array(_) => Err(Stop::Fail(format!("field {} read on an array", field.as_str()))),
                    },
                    other => Err(Stop::Fail(format!("field {} read on {}", field.as_str(), other.kind()))),
                }
            }
            AST::AssignField { object, field, value } => {
                let r = self.eval(object)?;
                let v = self.eval(value)?;
                match r {
                    V::Ref(o) => match &mut self.heap[o] {
                        HObj::Object { fields, .. } => match fields.iter_mut().find(|f| f.0 == field.as_str()) {
                            Some(f) => {
                                f.1 = v;
                                Ok(v)
                            }
                            None => Err(Stop::Fail(format!("no field {}", field.as_str()))),
                        },
                        HObj::Array(_) => Err(Stop::Fail(format!("field {} written on an array", field.as_str()))),
                    },
                    other => Err(Stop::Fail(format!("field {} written on {}", field.as_str(), other.kind()))),
                }
            }
            AST::Object { extends, members } => {
                let parent = self.eval(extends)?;
                let mut fields: Vec<(String, V)> = Vec::new();
                let mut methods: Vec<(String, Rc<MethodDef<'a>>)> = Vec::new();
                for m in members {
                    match &**m {
                        AST::Variable { name, value } => {
                            let v = self.eval(value)?;
                            fields.push((name.as_str().to_owned(), v));
                        }
                        AST::Function { name, parameters, body } => {
                            methods.push((
                                name.as_str().to_owned(),
                                Rc::new(MethodDef { params: parameters.iter().map(|p| p.as_str().to_owned()).collect(), body }),
                            ));
                        }
                        other => return Err(Stop::Oof(format!("object member {}", node_kind(other)))),
                    }
                }
                let mut seen = HashSet::new();
                for f in &fields {
                    if !seen.insert(f.0.as_str()) {
                        return Err(Stop::Fail(format!("duplicate field {}", f.0)));
                    }
                }
                let mut seen = HashSet::new();
                for m in &methods {
                    if !seen.insert(m.0.as_str()) {
                        return Err(Stop::Fail(format!("duplicate method {}", m.0)));
                    }
                }
                Ok(self.alloc(HObj::Object { parent, fields, methods }))
            }
            AST::CallFunction { name, arguments } => {
                let mut vs = Vec::with_capacity(arguments.len());
                for x in arguments {
                    vs.push(self.eval(x)?);
                }
                let f = match self.funcs.get(name.as_str()) {
                    Some(f) => f.clone(),
                    None => return Err(Stop::Fail(format!("no function {}", name.as_str()))),
                };
                if f.params.len() != vs.len() {
                    return Err(Stop::Fail(format!("function {} takes {} arguments, {} given", name.as_str(), f.params.len(), vs.len())));
                }
                let mut env = HashMap::new();
                for (p, v) in f.params.iter().zip(vs) {
                    env.insert(p.clone(), v);
                }
                self.invoke(env, f.body)
            }
            AST::CallMethod { object, name, arguments } => {
                let r = self.eval(object)?;
                let mut vs = Vec::with_capacity(arguments.len());
                for x in arguments {
                    vs.push(self.eval(x)?);
                }
                self.call(r, name.as_str(), vs)
            }
            AST::Print { format, arguments } => {
                let mut vs = Vec::with_capacity(arguments.len());
                for x in arguments {
                    vs.push(self.eval(x)?);
                }
                let mut rendered = Vec::with_capacity(vs.len());
                let mut cyclic = false;
                for v in vs {
                    match render(&self.heap, v) {
                        Ok(s) => rendered.push(s),
                        Err(RenderErr::Cyclic) => {
                            cyclic = true;
                            rendered.push(String::new());
                        }
                        Err(RenderErr::Dangling(r)) => return Err(Stop::Oof(format!("internal: dangling ref {}", r))),
                    }
                }
                match format_print(format, &rendered) {
                    Ok(s) => {
                        // a cyclic value only matters if a placeholder would print it
                        if cyclic {
                            return Err(Stop::Amb("print of a value that contains itself".into()));
                        }
                        self.out.push_str(&s);
                        Ok(V::Null)
                    }
                    Err(FmtErr::Fail(m)) => {
                        if cyclic {
                            return Err(Stop::Amb("print of a value that contains itself".into()));
                        }
                        Err(Stop::Fail(m))
                    }
                    Err(FmtErr::TrailingBackslash) => Err(Stop::Amb("format ends in a lone backslash".into())),
                }
            }
            AST::Function { .. } => Err(Stop::Oof("function definition in expression position".into())),
            AST::Top(_) => Err(Stop::Oof("nested Top".into())),
        }
    }

    fn invoke(&mut self, env: HashMap<String, V>, body: &'a AST) -> R {
        if self.frames.len() >= self.depth_limit {
            return Err(Stop::Fuel);
        }
        self.frames.push(vec![env]);
        if self.frames.len() > self.max_depth {
            self.max_depth = self.frames.len();
        }
        let r = self.eval(body);
        self.frames.pop();
        r
    }

    fn call(&mut self, recv: V, name: &str, args: Vec<V>) -> R {
        self.tick()?;
        let lift = |p: Prim| match p {
            Prim::Ok(v) => Ok(v),
            Prim::Fail(m) => Err(Stop::Fail(m)),
            Prim::Ambiguous(m) => Err(Stop::Amb(m)),
        };
        let mut recv = recv;
        loop {
            match recv {
                V::Null => return lift(null_method(name, &args)),
                V::Int(i) => return lift(int_method(i, name, &args)),
                V::Bool(b) => return lift(bool_method(b, name, &args)),
                V::Ref(r) => {
                    let (found, parent) = match &mut self.heap[r] {
                        HObj::Array(es) => return lift(array_method(es, name, &args)),
                        HObj::Object { parent, methods, .. } => (methods.iter().find(|m| m.0 == name).map(|m| m.1.clone()), *parent),
                    };
                    match found {
                        Some(m) => {
                            if m.params.len() != args.len() {
                                return Err(Stop::Fail(format!("method {} takes {} arguments, {} given", name, m.params.len(), args.len())));
                            }
                            let mut env = HashMap::new();
                            env.insert("this".to_owned(), recv);
                            for (p, v) in m.params.iter().zip(args) {
                                env.insert(p.clone(), v);
                            }
                            return self.invoke(env, m.body);
                        }
                        None => {
                            if parent == V::Null {
                                return Err(Stop::Fail(format!("no method {} in object", name)));
                            }
                            self.steps += 1;
                            recv = parent;
                        }
                    }
                }
            }
        }
    }
}

fn array_len(n: V, max: usize) -> Result<usize, Stop> {
    match n {
        V::Int(i) if i >= 0 && (i as usize) > max => Err(Stop::Fuel),
        V::Int(i) if i >= 0 => Ok(i as usize),
        other => Err(Stop::Fail(format!("invalid array size {:?}", other))),
    }
}

#[derive(Clone, Copy)]
pub struct Limits {
    pub fuel: u64,
    pub call_depth: usize,
    /// arrays larger than this make the case Fuel (protects the harness)
    pub max_array: usize,
}

impl Default for Limits {
    fn default() -> Self {
        Limits { fuel: 200_000, call_depth: 2_000, max_array: 1 << 20 }
    }
}

/// Evaluate a whole program (`AST::Top`). Must be called on a thread with a
/// large stack when `call_depth` is large.
pub fn run(top: &AST, lim: Limits) -> Outcome {
    let mut rs = Resolver {
        table: HashMap::new(),
        static_fail: None,
        hazard: None,
        global_names: HashSet::new(),
        scopes: Vec::new(),
        top: true,
        watch: Vec::new(),
    };
    let stmts = match top {
        AST::Top(ss) => ss,
        _ => {
            return Outcome {
                out: String::new(),
                res: Res::OutOfFragment("not a Top node".into()),
                allocs: vec![],
                steps: 0,
                max_call_depth: 0,
                order_hazard: None,
                kinds: HashSet::new(),
            }
        }
    };
    rs.walk(top, Pos::TopStmt);
    let mut funcs: HashMap<String, Rc<MethodDef>> = HashMap::new();
    for s in stmts {
        if let AST::Function { name, parameters, body } = &**s {
            let d = MethodDef { params: parameters.iter().map(|p| p.as_str().to_owned()).collect(), body };
            if funcs.insert(name.as_str().to_owned(), Rc::new(d)).is_some() {
                rs.sfail(format!("function {} defined twice", name.as_str()));
            }
        }
    }
    // top-level hazards with the global scope as "current scope" can only concern
    // globals, which are visible everywhere, so `used` collected at depth 0 with an
    // empty scope stack over-approximates; drop hazards in that situation? No: keep,
    // it is conservative (only turns a comparison into "not judged").
    let mut sem = Sem {
        table: rs.table,
        global_names: rs.global_names,
        funcs,
        heap: Vec::new(),
        globals: HashMap::new(),
        out: String::new(),
        steps: 0,
        fuel: lim.fuel,
        allocs: Vec::new(),
        frames: vec![Vec::new()],
        max_depth: 1,
        depth_limit: lim.call_depth,
        max_array: lim.max_array,
        kinds: HashSet::new(),
    };
    if let Some(s) = rs.static_fail {
        return Outcome { out: String::new(), res: Res::Static(s), allocs: vec![], steps: 0, max_call_depth: 0, order_hazard: rs.hazard, kinds: HashSet::new() };
    }
    let mut res = Res::Ok;
    for s in stmts {
        if let AST::Function { .. } = &**s {
            continue;
        }
        match sem.eval(s) {
            Ok(_) => {}
            Err(Stop::Fail(m)) => {
                res = Res::Fail(m);
                break;
            }
            Err(Stop::Fuel) => {
                res = Res::Fuel;
                break;
            }
            Err(Stop::Oof(m)) => {
                res = Res::OutOfFragment(m);
                break;
            }
            Err(Stop::Amb(m)) => {
                res = Res::Ambiguous(m);
                break;
            }
        }
    }
    Outcome { out: sem.out, res, allocs: sem.allocs, steps: sem.steps, max_call_depth: sem.max_depth, order_hazard: rs.hazard, kinds: sem.kinds }
}

/// Run on a dedicated big-stack thread (1 GiB) so that deep FML recursion does
/// not overflow the *reference's* native stack.
pub fn run_big_stack(top: &AST, lim: Limits) -> Outcome {
    let top2 = top.clone();
    let h = std::thread::Builder::new().stack_size(1 << 30).spawn(move || run(&top2, lim)).expect("spawn refsem thread");
    h.join().expect("refsem thread panicked")
}
