//! Validator of decoded bytecode (property C02): reference kinds, label
//! uniqueness and locality, local index range, and an abstract
//! interpretation of operand-stack depth over each method's control-flow graph.

use super::bcfmt::{Const, Ins, Prog};
use std::collections::HashMap;

#[derive(Debug, Clone)]
pub struct Issue {
    /// Stable class of the issue (used for signatures / histograms).
    pub class: &'static str,
    pub detail: String,
}

fn issue(class: &'static str, detail: String) -> Issue {
    Issue { class, detail }
}

#[derive(Debug, Default, Clone)]
pub struct Report {
    pub issues: Vec<Issue>,
    /// depth *before* each instruction, per method constant index (None = unreachable)
    pub depths: HashMap<usize, Vec<Option<i32>>>,
    /// depth at the end of the entry method when it runs off its end
    pub entry_end_depth: Option<i32>,
    pub max_depth: i32,
    pub n_methods: usize,
    pub n_labels: usize,
    pub n_jumps: usize,
}

fn kind(c: Option<&Const>) -> &'static str {
    match c {
        None => "missing",
        Some(Const::Int(_)) => "int",
        Some(Const::Null) => "null",
        Some(Const::Str(_)) => "string",
        Some(Const::Method { .. }) => "method",
        Some(Const::Slot(_)) => "slot",
        Some(Const::Class(_)) => "class",
        Some(Const::Bool(_)) => "bool",
    }
}

/// Number of field slots in class constant `ci`, or None if not a well-formed class.
fn class_slots(p: &Prog, ci: u16) -> Option<usize> {
    match p.consts.get(ci as usize) {
        Some(Const::Class(ms)) => {
            let mut n = 0;
            for m in ms {
                match p.consts.get(*m as usize) {
                    Some(Const::Slot(_)) => n += 1,
                    Some(Const::Method { .. }) => {}
                    _ => return None,
                }
            }
            Some(n)
        }
        _ => None,
    }
}

pub fn validate(p: &Prog) -> Report {
    let mut rep = Report::default();
    let get = |i: u16| p.consts.get(i as usize);
    let want_str = |rep: &mut Report, i: u16, ctx: String| {
        if !matches!(get(i), Some(Const::Str(_))) {
            rep.issues.push(issue("ref-kind", format!("{} refers to #{} which is {} (string required)", ctx, i, kind(get(i)))));
        }
    };

    // constants
    for (ci, c) in p.consts.iter().enumerate() {
        match c {
            Const::Method { name, .. } => want_str(&mut rep, *name, format!("method #{} name", ci)),
            Const::Slot(n) => want_str(&mut rep, *n, format!("slot #{} name", ci)),
            Const::Class(ms) => {
                for m in ms {
                    if !matches!(get(*m), Some(Const::Slot(_)) | Some(Const::Method { .. })) {
                        rep.issues.push(issue("ref-kind", format!("class #{} member #{} is {} (slot or method required)", ci, m, kind(get(*m)))));
                    }
                }
            }
            _ => {}
        }
    }
    // globals and entry
    for g in &p.globals {
        if !matches!(get(*g), Some(Const::Slot(_)) | Some(Const::Method { .. })) {
            rep.issues.push(issue("global-kind", format!("global #{} is {} (slot or method required)", g, kind(get(*g)))));
        }
    }
    {
        let mut seen = std::collections::HashSet::new();
        for g in &p.globals {
            if !seen.insert(*g) {
                rep.issues.push(issue("global-dup", format!("global #{} listed twice", g)));
            }
        }
    }
    if !matches!(get(p.entry), Some(Const::Method { .. })) {
        rep.issues.push(issue("entry-kind", format!("entry #{} is {} (method required)", p.entry, kind(get(p.entry)))));
    }

    // labels: program-wide uniqueness by *name*
    let mut label_def: HashMap<String, Vec<(usize, usize)>> = HashMap::new();
    for (ci, c) in p.consts.iter().enumerate() {
        if let Const::Method { code, .. } = c {
            rep.n_methods += 1;
            for (off, ins) in code.iter().enumerate() {
                if let Ins::Label(l) = ins {
                    rep.n_labels += 1;
                    match p.str_at(*l) {
                        Some(s) => label_def.entry(s.to_owned()).or_default().push((ci, off)),
                        None => rep.issues.push(issue("ref-kind", format!("label at #{}+{} refers to #{} which is {}", ci, off, l, kind(get(*l))))),
                    }
                }
            }
        }
    }
    for (name, defs) in &label_def {
        if defs.len() > 1 {
            rep.issues.push(issue("label-dup", format!("label {:?} defined {} times: {:?}", name, defs.len(), defs)));
        }
    }

    // per method
    for (ci, c) in p.consts.iter().enumerate() {
        let (arity, locals, code) = match c {
            Const::Method { arity, locals, code, .. } => (*arity as usize, *locals as usize, code),
            _ => continue,
        };
        let is_entry = ci == p.entry as usize;
        let frame = arity + locals;
        // static operand checks and jump targets
        let mut target: Vec<Option<usize>> = vec![None; code.len()];
        for (off, ins) in code.iter().enumerate() {
            let ctx = || format!("#{}+{} {:?}", ci, off, ins);
            match ins {
                Ins::Lit(i) => {
                    if !matches!(get(*i), Some(Const::Int(_)) | Some(Const::Null) | Some(Const::Bool(_))) {
                        rep.issues.push(issue("ref-kind", format!("{} refers to {} (int/null/bool required)", ctx(), kind(get(*i)))));
                    }
                }
                Ins::Print(f, _) => want_str(&mut rep, *f, ctx()),
                Ins::Object(cl) => {
                    if class_slots(p, *cl).is_none() {
                        rep.issues.push(issue("ref-kind", format!("{} refers to {} (well-formed class required)", ctx(), kind(get(*cl)))));
                    }
                }
                Ins::GetSlot(n) | Ins::SetSlot(n) | Ins::GetGlobal(n) | Ins::SetGlobal(n) => want_str(&mut rep, *n, ctx()),
                Ins::CallSlot(n, a) => {
                    want_str(&mut rep, *n, ctx());
                    if *a == 0 {
                        rep.issues.push(issue("call-slot-arity0", format!("{} has argument count 0 (receiver missing)", ctx())));
                    }
                }
                Ins::Call(n, _) => want_str(&mut rep, *n, ctx()),
                Ins::GetLocal(i) | Ins::SetLocal(i) => {
                    if (*i as usize) >= frame {
                        rep.issues.push(issue("local-range", format!("{} but frame has {} slots (arity {} + locals {})", ctx(), frame, arity, locals)));
                    }
                }
                Ins::Branch(l) | Ins::Goto(l) => {
                    rep.n_jumps += 1;
                    match p.str_at(*l) {
                        None => rep.issues.push(issue("ref-kind", format!("{} refers to {} (string required)", ctx(), kind(get(*l))))),
                        Some(name) => match label_def.get(name) {
                            None => rep.issues.push(issue("label-undefined", format!("{} targets undefined label {:?}", ctx(), name))),
                            Some(defs) => {
                                let local: Vec<_> = defs.iter().filter(|(m, _)| *m == ci).collect();
                                if local.is_empty() {
                                    rep.issues.push(issue("label-foreign", format!("{} targets label {:?} defined in another method {:?}", ctx(), name, defs)));
                                } else {
                                    target[off] = Some(local[0].1);
                                }
                            }
                        },
                    }
                }
                Ins::Label(_) | Ins::Array | Ins::Return | Ins::Drop => {}
            }
        }
        // abstract interpretation of stack depth
        let mut depth: Vec<Option<i32>> = vec![None; code.len()];
        let mut end_depth: Option<i32> = None;
        let mut work: Vec<(usize, i32)> = vec![(0, 0)];
        let mut flagged_merge = false;
        while let Some((pc, d)) = work.pop() {
            if pc >= code.len() {
                // ran off the end of the method
                if is_entry {
                    match end_depth {
                        None => end_depth = Some(d),
                        Some(e) if e != d && !flagged_merge => {
                            flagged_merge = true;
                            rep.issues.push(issue("depth-merge", format!("entry #{} ends with depth {} on one path and {} on another", ci, e, d)));
                        }
                        _ => {}
                    }
                } else {
                    rep.issues.push(issue("fall-off", format!("method #{} can run off its end without return (depth {})", ci, d)));
                }
                continue;
            }
            match depth[pc] {
                Some(e) => {
                    if e != d && !flagged_merge {
                        flagged_merge = true;
                        rep.issues.push(issue("depth-merge", format!("#{}+{} {:?} reached with depth {} and {}", ci, pc, code[pc], e, d)));
                    }
                    continue;
                }
                None => depth[pc] = Some(d),
            }
            if d > rep.max_depth {
                rep.max_depth = d;
            }
            let ins = &code[pc];
            let (pops, pushes): (i32, i32) = match ins {
                Ins::Lit(_) | Ins::GetLocal(_) | Ins::GetGlobal(_) => (0, 1),
                Ins::SetLocal(_) | Ins::SetGlobal(_) => (1, 1),
                Ins::Object(cl) => (class_slots(p, *cl).unwrap_or(0) as i32 + 1, 1),
                Ins::Array => (2, 1),
                Ins::GetSlot(_) => (1, 1),
                Ins::SetSlot(_) => (2, 1),
                Ins::CallSlot(_, n) => ((*n as i32).max(1), 1),
                Ins::Call(_, n) => (*n as i32, 1),
                Ins::Print(_, n) => (*n as i32, 1),
                Ins::Label(_) | Ins::Goto(_) => (0, 0),
                Ins::Branch(_) => (1, 0),
                Ins::Return => (1, 1),
                Ins::Drop => (1, 0),
            };
            if d < pops {
                rep.issues.push(issue("depth-underflow", format!("#{}+{} {:?} needs {} operand(s) but depth is {}", ci, pc, ins, pops, d)));
                continue;
            }
            let nd = d - pops + pushes;
            match ins {
                Ins::Return => {
                    if d != 1 {
                        rep.issues.push(issue("return-depth", format!("#{}+{} return with operand depth {} (must be exactly 1)", ci, pc, d)));
                    }
                }
                Ins::Goto(_) => {
                    if let Some(t) = target[pc] {
                        work.push((t, nd));
                    }
                }
                Ins::Branch(_) => {
                    if let Some(t) = target[pc] {
                        work.push((t, nd));
                    }
                    work.push((pc + 1, nd));
                }
                _ => work.push((pc + 1, nd)),
            }
        }
        if is_entry {
            if let Some(e) = end_depth {
                if e != 0 && e != 1 {
                    rep.issues.push(issue("entry-end-depth", format!("entry #{} ends with operand depth {} (0 or 1 expected)", ci, e)));
                }
            }
            rep.entry_end_depth = end_depth;
        }
        rep.depths.insert(ci, depth);
    }
    rep
}

/// Check that method address ranges (start, len) partition a code vector
/// of `code_len` instructions: disjoint, contiguous and covering.
pub fn check_partition(ranges: &[(usize, usize, usize)], code_len: usize) -> Vec<Issue> {
    let mut out = Vec::new();
    let mut rs: Vec<(usize, usize, usize)> = ranges.to_vec();
    rs.sort_by_key(|r| (r.1, r.2));
    let mut pos = 0usize;
    for (ci, start, len) in rs {
        if start < pos {
            out.push(issue("method-overlap", format!("method #{} range {}+{} overlaps previous code (covered up to {})", ci, start, len, pos)));
        } else if start > pos {
            out.push(issue("method-gap", format!("instructions {}..{} belong to no method (next method #{} starts at {})", pos, start, ci, start)));
        }
        pos = pos.max(start + len);
    }
    if pos != code_len {
        out.push(issue("method-cover", format!("methods cover {} instruction(s) but code has {}", pos, code_len)));
    }
    out
}
