//! Reference abstract machine for the bytecode, written from the OpCode
//! doc-comments, property C05 and DESIGN.md Appendix B. Operates on the
//! harness's own decoded program (`bcfmt::Prog`), where every method owns its
//! instruction vector, so it shares no address arithmetic with FML's VM.

use super::bcfmt::{Const, Ins, Prog};
use super::prim::*;
use std::collections::HashMap;

pub type Obj = HObj<usize>; // method payload = constant index of the Method

#[derive(Clone, Debug, PartialEq)]
pub enum Ret {
    /// returning ends the program
    Halt,
    /// control ran off the end of the method that is last in the file: the program ends
    End,
    At(usize, usize),
    /// the call was the last instruction of a method that is not last in the file:
    /// returning would fall into foreign code (non-conforming program)
    FallOff(usize),
}

#[derive(Clone, Debug)]
pub struct Frame {
    pub locals: Vec<V>,
    pub ret: Ret,
    /// operand-stack height when the frame was entered (after the arguments were popped)
    pub base: usize,
}

#[derive(Clone, Debug, PartialEq)]
pub enum Status {
    Running,
    Halted,
    Failed(String),
    /// the program leaves the conforming fragment; nothing is judged from here on
    NonConforming(String),
    /// behaviour not pinned (MIN % -1, cyclic print, lone trailing backslash)
    Ambiguous(String),
}

pub struct Machine<'p> {
    pub p: &'p Prog,
    pub stack: Vec<V>,
    pub frames: Vec<Frame>,
    pub globals: HashMap<String, V>,
    pub functions: HashMap<String, usize>,
    pub labels: HashMap<String, (usize, usize)>,
    pub heap: Vec<Obj>,
    pub ip: Option<(usize, usize)>,
    pub out: String,
    pub status: Status,
    pub steps: u64,
    /// index (into consts) of the method that is last in file order
    last_method: Option<usize>,
    pub opcode_hist: [u64; 17],
    pub dispatch_hist: HashMap<String, u64>,
    /// heap object mutated by the last instruction, if any
    pub touched: Option<usize>,
    /// for an array `set`: the index written (large arrays are compared around it between sweeps)
    pub touched_cell: Option<usize>,
    /// the program ended by running off the end of the file's last method
    pub ran_off_end: bool,
    /// total number of array elements allocated so far
    pub heap_cells: u64,
    pub frame_cells: u64,
}

impl<'p> Machine<'p> {
    /// Err = the program cannot even be started (static failure: duplicate globals, bad entry…)
    pub fn new(p: &'p Prog) -> Result<Machine<'p>, String> {
        let entry = match p.consts.get(p.entry as usize) {
            Some(Const::Method { .. }) => p.entry as usize,
            _ => return Err("entry is not a method".into()),
        };
        let mut globals = HashMap::new();
        let mut functions = HashMap::new();
        for g in &p.globals {
            match p.consts.get(*g as usize) {
                Some(Const::Slot(n)) => {
                    let name = p.str_at(*n).ok_or("global slot name is not a string")?;
                    if globals.insert(name.to_owned(), V::Null).is_some() {
                        return Err(format!("duplicate global {}", name));
                    }
                }
                Some(Const::Method { name, .. }) => {
                    let name = p.str_at(*name).ok_or("function name is not a string")?;
                    if functions.insert(name.to_owned(), *g as usize).is_some() {
                        return Err(format!("duplicate function {}", name));
                    }
                }
                _ => return Err("global is neither slot nor method".into()),
            }
        }
        let mut labels = HashMap::new();
        let mut last_method = None;
        for (ci, c) in p.consts.iter().enumerate() {
            if let Const::Method { code, .. } = c {
                last_method = Some(ci);
                for (off, ins) in code.iter().enumerate() {
                    if let Ins::Label(l) = ins {
                        if let Some(name) = p.str_at(*l) {
                            // conforming programs define each label once; keep the first
                            labels.entry(name.to_owned()).or_insert((ci, off));
                        }
                    }
                }
            }
        }
        let (locals, len) = match &p.consts[entry] {
            Const::Method { locals, code, arity, .. } => (*locals as usize + *arity as usize, code.len()),
            _ => unreachable!(),
        };
        let ip = if len > 0 { Some((entry, 0)) } else { None };
        Ok(Machine {
            p,
            stack: Vec::new(),
            frames: vec![Frame { locals: vec![V::Null; locals], ret: Ret::Halt, base: 0 }],
            globals,
            functions,
            labels,
            heap: Vec::new(),
            ip,
            out: String::new(),
            status: if ip.is_some() { Status::Running } else { Status::Halted },
            steps: 0,
            last_method,
            opcode_hist: [0; 17],
            dispatch_hist: HashMap::new(),
            touched: None,
            touched_cell: None,
            ran_off_end: false,
            heap_cells: 0,
            frame_cells: 0,
        })
    }

    fn code(&self, m: usize) -> &'p [Ins] {
        match &self.p.consts[m] {
            Const::Method { code, .. } => code,
            _ => &[],
        }
    }

    /// the point reached after executing the instruction at (m, off) sequentially
    fn next_of(&self, m: usize, off: usize) -> Ret {
        if off + 1 < self.code(m).len() {
            Ret::At(m, off + 1)
        } else if Some(m) == self.last_method {
            Ret::End
        } else {
            Ret::FallOff(m)
        }
    }

    fn goto(&mut self, r: Ret) {
        match r {
            Ret::Halt => {
                self.ip = None;
                self.status = Status::Halted;
            }
            Ret::End => {
                self.ip = None;
                self.ran_off_end = true;
                self.status = Status::Halted;
            }
            Ret::At(m, o) => self.ip = Some((m, o)),
            Ret::FallOff(m) => {
                self.ip = None;
                self.status = Status::NonConforming(format!("control runs off the end of method #{} which is not last in the file", m));
            }
        }
    }

    fn fail(&mut self, m: String) {
        self.status = Status::Failed(m);
    }

    fn pop(&mut self) -> Result<V, String> {
        self.stack.pop().ok_or_else(|| "operand stack empty".to_string())
    }

    fn str_const(&self, i: u16) -> Result<&'p str, String> {
        self.p.str_at(i).ok_or_else(|| format!("constant #{} is not a string", i))
    }

    /// Execute one instruction. No-op unless `status == Running`.
    pub fn step(&mut self) {
        if self.status != Status::Running {
            return;
        }
        let (m, off) = match self.ip {
            Some(x) => x,
            None => {
                self.status = Status::Halted;
                return;
            }
        };
        let ins = self.code(m)[off].clone();
        self.steps += 1;
        self.touched = None;
        self.touched_cell = None;
        self.opcode_hist[ins.opcode() as usize] += 1;
        if let Err(e) = self.exec(m, off, &ins) {
            if self.status == Status::Running {
                self.fail(e);
            }
        }
    }

    fn exec(&mut self, m: usize, off: usize, ins: &Ins) -> Result<(), String> {
        let next = self.next_of(m, off);
        match ins {
            Ins::Lit(i) => {
                let v = match self.p.consts.get(*i as usize) {
                    Some(Const::Int(n)) => V::Int(*n),
                    Some(Const::Null) => V::Null,
                    Some(Const::Bool(b)) => V::Bool(*b),
                    _ => return Err(format!("lit #{} is not int/null/bool", i)),
                };
                self.stack.push(v);
                self.goto(next);
            }
            Ins::GetLocal(k) => {
                let f = self.frames.last().ok_or("no frame")?;
                let v = *f.locals.get(*k as usize).ok_or_else(|| format!("local {} out of range", k))?;
                self.stack.push(v);
                self.goto(next);
            }
            Ins::SetLocal(k) => {
                let v = *self.stack.last().ok_or("operand stack empty")?;
                let f = self.frames.last_mut().ok_or("no frame")?;
                let slot = f.locals.get_mut(*k as usize).ok_or_else(|| format!("local {} out of range", k))?;
                *slot = v;
                self.goto(next);
            }
            Ins::GetGlobal(n) => {
                let name = self.str_const(*n)?;
                let v = *self.globals.get(name).ok_or_else(|| format!("no global {}", name))?;
                self.stack.push(v);
                self.goto(next);
            }
            Ins::SetGlobal(n) => {
                let name = self.str_const(*n)?;
                let v = *self.stack.last().ok_or("operand stack empty")?;
                match self.globals.get_mut(name) {
                    Some(slot) => *slot = v,
                    None => return Err(format!("no global {}", name)),
                }
                self.goto(next);
            }
            Ins::Object(c) => {
                let members = match self.p.consts.get(*c as usize) {
                    Some(Const::Class(ms)) => ms.clone(),
                    _ => return Err(format!("object #{} is not a class", c)),
                };
                let mut field_names: Vec<String> = Vec::new();
                let mut methods: Vec<(String, usize)> = Vec::new();
                for mi in &members {
                    match self.p.consts.get(*mi as usize) {
                        Some(Const::Slot(n)) => field_names.push(self.str_const(*n)?.to_owned()),
                        Some(Const::Method { name, .. }) => {
                            let nm = self.str_const(*name)?.to_owned();
                            if methods.iter().any(|x| x.0 == nm) {
                                return Err(format!("duplicate method {} in class", nm));
                            }
                            methods.push((nm, *mi as usize));
                        }
                        _ => return Err("class member is neither slot nor method".into()),
                    }
                }
                let k = field_names.len();
                if self.stack.len() < k + 1 {
                    return Err("operand stack too shallow for object".into());
                }
                let vals: Vec<V> = self.stack.split_off(self.stack.len() - k);
                let parent = self.pop()?;
                for i in 0..k {
                    for j in 0..i {
                        if field_names[i] == field_names[j] {
                            return Err(format!("duplicate field {} in class", field_names[i]));
                        }
                    }
                }
                let fields = field_names.into_iter().zip(vals.into_iter()).collect();
                self.heap.push(HObj::Object { parent, fields, methods });
                self.stack.push(V::Ref(self.heap.len() - 1));
                self.goto(next);
            }
            Ins::Array => {
                let init = self.pop()?;
                let size = self.pop()?;
                let n = match size {
                    V::Int(i) if i >= 0 => i as usize,
                    other => return Err(format!("array size {:?}", other)),
                };
                // protect the harness (and the real VM that is run on the same program): large or
                // many arrays are not judged
                self.heap_cells += n as u64;
                if n > (1 << 20) || self.heap_cells > (1 << 22) {
                    self.status = Status::Ambiguous("arrays too large for the reference machine".into());
                    return Ok(());
                }
                self.heap.push(HObj::Array(vec![init; n]));
                self.stack.push(V::Ref(self.heap.len() - 1));
                self.goto(next);
            }
            Ins::GetSlot(n) => {
                let name = self.str_const(*n)?;
                let r = self.pop()?;
                let v = match r {
                    V::Ref(o) => match &self.heap[o] {
                        HObj::Object { fields, .. } => fields.iter().find(|f| f.0 == name).map(|f| f.1).ok_or_else(|| format!("no field {}", name))?,
                        HObj::Array(_) => return Err("get slot on array".into()),
                    },
                    other => return Err(format!("get slot on {}", other.kind())),
                };
                self.stack.push(v);
                self.goto(next);
            }
            Ins::SetSlot(n) => {
                let name = self.str_const(*n)?;
                let v = self.pop()?;
                let r = self.pop()?;
                match r {
                    V::Ref(o) => match &mut self.heap[o] {
                        HObj::Object { fields, .. } => match fields.iter_mut().find(|f| f.0 == name) {
                            Some(f) => f.1 = v,
                            None => return Err(format!("no field {}", name)),
                        },
                        HObj::Array(_) => return Err("set slot on array".into()),
                    },
                    other => return Err(format!("set slot on {}", other.kind())),
                }
                if let V::Ref(o) = r {
                    self.touched = Some(o);
                }
                self.stack.push(v);
                self.goto(next);
            }
            Ins::CallSlot(n, argc) => {
                let name = self.str_const(*n)?;
                if *argc == 0 {
                    return Err("call slot with 0 arguments (no receiver)".into());
                }
                let k = *argc as usize;
                if self.stack.len() < k {
                    return Err("operand stack too shallow for call slot".into());
                }
                let args: Vec<V> = self.stack.split_off(self.stack.len() - (k - 1));
                let recv = self.pop()?;
                self.dispatch(recv, name, args, next)?;
            }
            Ins::Call(n, argc) => {
                let name = self.str_const(*n)?;
                let fi = *self.functions.get(name).ok_or_else(|| format!("no function {}", name))?;
                let (arity, locals) = match &self.p.consts[fi] {
                    Const::Method { arity, locals, .. } => (*arity as usize, *locals as usize),
                    _ => unreachable!(),
                };
                if arity != *argc as usize {
                    return Err(format!("function {} takes {} arguments, {} given", name, arity, argc));
                }
                if self.stack.len() < arity {
                    return Err("operand stack too shallow for call".into());
                }
                let mut ls: Vec<V> = self.stack.split_off(self.stack.len() - arity);
                ls.extend(std::iter::repeat(V::Null).take(locals));
                self.enter(fi, ls, next);
            }
            Ins::Print(f, argc) => {
                let fmt = self.str_const(*f)?;
                let k = *argc as usize;
                if self.stack.len() < k {
                    return Err("operand stack too shallow for printf".into());
                }
                let args: Vec<V> = self.stack.split_off(self.stack.len() - k);
                let mut rendered = Vec::new();
                let mut cyclic = false;
                for a in args {
                    match render(&self.heap, a) {
                        Ok(s) => rendered.push(s),
                        Err(RenderErr::Cyclic) => {
                            cyclic = true;
                            rendered.push(String::new());
                        }
                        Err(RenderErr::Dangling(r)) => return Err(format!("dangling reference {}", r)),
                    }
                }
                if cyclic {
                    self.status = Status::Ambiguous("print of a value that contains itself".into());
                    return Ok(());
                }
                match format_print(fmt, &rendered) {
                    Ok(s) => self.out.push_str(&s),
                    Err(FmtErr::Fail(e)) => return Err(e),
                    Err(FmtErr::TrailingBackslash) => {
                        self.status = Status::Ambiguous("format ends in a lone backslash".into());
                        return Ok(());
                    }
                }
                self.stack.push(V::Null);
                self.goto(next);
            }
            Ins::Label(_) => self.goto(next),
            Ins::Goto(l) => {
                let name = self.str_const(*l)?;
                let (tm, to) = *self.labels.get(name).ok_or_else(|| format!("no label {}", name))?;
                if tm != m {
                    self.status = Status::NonConforming(format!("jump from method #{} to label {:?} in method #{}", m, name, tm));
                    return Ok(());
                }
                self.ip = Some((tm, to));
            }
            Ins::Branch(l) => {
                let name = self.str_const(*l)?;
                let v = self.pop()?;
                if v.truthy() {
                    let (tm, to) = *self.labels.get(name).ok_or_else(|| format!("no label {}", name))?;
                    if tm != m {
                        self.status = Status::NonConforming(format!("jump from method #{} to label {:?} in method #{}", m, name, tm));
                        return Ok(());
                    }
                    self.ip = Some((tm, to));
                } else {
                    self.goto(next);
                }
            }
            Ins::Return => {
                let f = self.frames.pop().ok_or("return without frame")?;
                self.goto(f.ret);
            }
            Ins::Drop => {
                self.pop()?;
                self.goto(next);
            }
        }
        Ok(())
    }

    fn enter(&mut self, method: usize, locals: Vec<V>, ret: Ret) {
        // memory guard: frames with tens of thousands of locals in deep recursion are not judged
        self.frame_cells = self.frames.iter().map(|f| f.locals.len() as u64).sum::<u64>() + locals.len() as u64;
        if self.frame_cells > (1 << 22) || self.frames.len() > 200_000 {
            self.ip = None;
            self.status = Status::Ambiguous("frames too large for the reference machine".into());
            return;
        }
        let base = self.stack.len();
        self.frames.push(Frame { locals, ret, base });
        if self.code(method).is_empty() {
            // empty body: control would run into whatever follows; not conforming
            self.ip = None;
            self.status = Status::NonConforming(format!("method #{} has an empty body", method));
        } else {
            self.ip = Some((method, 0));
        }
    }

    fn dispatch(&mut self, recv: V, name: &str, args: Vec<V>, next: Ret) -> Result<(), String> {
        let mut recv = recv;
        let mut hops = 0;
        loop {
            let prim = match recv {
                V::Null => {
                    self.note_dispatch("null", name, hops);
                    Some(null_method(name, &args))
                }
                V::Int(i) => {
                    self.note_dispatch("int", name, hops);
                    Some(int_method(i, name, &args))
                }
                V::Bool(b) => {
                    self.note_dispatch("bool", name, hops);
                    Some(bool_method(b, name, &args))
                }
                V::Ref(r) => match &mut self.heap[r] {
                    HObj::Array(es) => {
                        let p = array_method(es, name, &args);
                        self.touched = Some(r);
                        self.touched_cell = match (name, args.first()) {
                            ("set", Some(V::Int(i))) if *i >= 0 => Some(*i as usize),
                            _ => None,
                        };
                        self.note_dispatch("array", name, hops);
                        Some(p)
                    }
                    HObj::Object { .. } => None,
                },
            };
            if let Some(p) = prim {
                match p {
                    Prim::Ok(v) => {
                        self.stack.push(v);
                        self.goto(next);
                        return Ok(());
                    }
                    Prim::Fail(e) => return Err(e),
                    Prim::Ambiguous(e) => {
                        self.status = Status::Ambiguous(e);
                        return Ok(());
                    }
                }
            }
            let r = if let V::Ref(r) = recv { r } else { unreachable!() };
            let (found, parent) = match &self.heap[r] {
                HObj::Object { parent, methods, .. } => (methods.iter().find(|x| x.0 == name).map(|x| x.1), *parent),
                _ => unreachable!(),
            };
            match found {
                Some(mi) => {
                    self.note_dispatch("object", name, hops);
                    let (arity, locals) = match &self.p.consts[mi] {
                        Const::Method { arity, locals, .. } => (*arity as usize, *locals as usize),
                        _ => unreachable!(),
                    };
                    if arity == 0 {
                        self.status = Status::NonConforming("object method with arity 0 (no receiver slot)".into());
                        return Ok(());
                    }
                    if arity != args.len() + 1 {
                        return Err(format!("method {} takes {} arguments, {} given", name, arity - 1, args.len()));
                    }
                    let mut ls = Vec::with_capacity(arity + locals);
                    ls.push(recv);
                    ls.extend(args);
                    ls.extend(std::iter::repeat(V::Null).take(locals));
                    self.enter(mi, ls, next);
                    return Ok(());
                }
                None => {
                    if parent == V::Null {
                        return Err(format!("no method {} in object", name));
                    }
                    hops += 1;
                    recv = parent;
                }
            }
        }
    }

    fn note_dispatch(&mut self, kind: &str, name: &str, hops: usize) {
        let k = format!("{}{}:{}", kind, if hops > 0 { "^" } else { "" }, name);
        if self.dispatch_hist.len() < 4096 {
            *self.dispatch_hist.entry(k).or_insert(0) += 1;
        }
    }

    /// Run to completion under a step cap. Returns false if the cap was hit.
    pub fn run(&mut self, cap: u64) -> bool {
        while self.status == Status::Running {
            if self.steps >= cap {
                return false;
            }
            self.step();
        }
        true
    }
}

#[derive(Clone, Debug, PartialEq)]
pub struct VmOutcome {
    pub out: String,
    pub status: Status,
    pub steps: u64,
    pub capped: bool,
    pub ran_off_end: bool,
}

pub fn run_prog(p: &Prog, cap: u64) -> VmOutcome {
    match Machine::new(p) {
        Err(e) => VmOutcome { out: String::new(), status: Status::Failed(format!("static: {}", e)), steps: 0, capped: false, ran_off_end: false },
        Ok(mut m) => {
            let done = m.run(cap);
            VmOutcome { out: m.out.clone(), status: m.status.clone(), steps: m.steps, capped: !done, ran_off_end: m.ran_off_end }
        }
    }
}
