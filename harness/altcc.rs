//! An independent AST -> bytecode compiler with randomised conventions
//! (property C05). It targets the harness's own `bcfmt::Prog`, never uses a
//! keep-result flag (every expression materialises one value; statements
//! `drop`), resolves names with its own lexical scope stack, and randomises
//! label names, constant order and sharing, local slot numbering (with gaps),
//! method order in the file, whether the entry method ends in `return`, and
//! Feeny spellings of built-ins where the receiver is a literal primitive.

use crate::parser::{Identifier, AST};
use std::collections::HashMap;

use super::bcfmt::{Const, Ins, Prog};
use super::rng::Rng;

pub struct Conv {
    pub dedup: bool,
    pub label_style: u8,
    pub gap_chance: u32,
    pub feeny: bool,
    pub layout_b: bool,
}

struct Pool {
    consts: Vec<Const>,
    dedup: bool,
}

impl Pool {
    fn add(&mut self, c: Const) -> u16 {
        if self.dedup {
            if let Some(i) = self.consts.iter().position(|x| *x == c) {
                return i as u16;
            }
        }
        self.consts.push(c);
        (self.consts.len() - 1) as u16
    }
    fn s(&mut self, s: &str) -> u16 {
        self.add(Const::Str(s.to_owned()))
    }
}

struct Frame {
    scopes: Vec<HashMap<String, u16>>,
    arity: u16,
    next_slot: u16,
    is_top: bool,
    code: Vec<Ins>,
}

pub struct Cc<'r> {
    rng: &'r mut Rng,
    conv: Conv,
    pool: Pool,
    globals: Vec<u16>,
    global_names: Vec<String>,
    labels: usize,
    pub error: Option<String>,
}

fn feeny_int(name: &str) -> Option<&'static str> {
    Some(match name {
        "+" => "add",
        "-" => "sub",
        "*" => "mul",
        "/" => "div",
        "%" => "mod",
        "<=" => "le",
        ">=" => "ge",
        "<" => "lt",
        ">" => "gt",
        "==" => "eq",
        "!=" => "neq",
        _ => return None,
    })
}

fn feeny_bool(name: &str) -> Option<&'static str> {
    Some(match name {
        "&" => "and",
        "|" => "or",
        "==" => "eq",
        "!=" => "neq",
        _ => return None,
    })
}

impl<'r> Cc<'r> {
    fn label(&mut self, hint: &str) -> String {
        self.labels += 1;
        let n = self.labels;
        match self.conv.label_style {
            0 => format!("L{}", n),
            1 => format!("{}:{}", hint, n),
            2 => format!("λ {} ž{}", n, hint),
            3 => format!("{}", n),
            // names that look like FML's own but numbered differently
            4 => format!("if:consequent:{}", 1000 + n),
            // numeric suffixes at the limits of the integer types (a reader that parses them must not
            // overflow), bare numbers counting down from 2^64 - 1, suffixes that only look numeric
            5 => format!("{}:{}", hint, u64::MAX - (n as u64 - 1)),
            6 => format!("{}", u64::MAX - (n as u64 - 1)),
            7 => format!("{}{}:{}", hint, n, [4294967295u64, 4294967296, 65535, 65536, 2147483647, 2147483648, 9223372036854775807, 9223372036854775808][n % 8]),
            _ => format!("{}:{}", n, ["-1", "+1", "0x10", "1e3", " 7", "007", "", ":"][n % 8]),
        }
    }

    fn new_slot(&mut self, f: &mut Frame) -> u16 {
        if self.rng.chance(self.conv.gap_chance, 10) {
            f.next_slot += 1;
        }
        let s = f.next_slot;
        f.next_slot += 1;
        s
    }

    fn resolve(&self, f: &Frame, name: &str) -> Option<u16> {
        for s in f.scopes.iter().rev() {
            if let Some(k) = s.get(name) {
                return Some(*k);
            }
        }
        None
    }

    fn spelled(&mut self, recv: &AST, name: &str) -> String {
        if self.conv.feeny && self.rng.coin() {
            match recv {
                AST::Integer(_) => {
                    if let Some(f) = feeny_int(name) {
                        return f.to_owned();
                    }
                }
                AST::Boolean(_) => {
                    if let Some(f) = feeny_bool(name) {
                        return f.to_owned();
                    }
                }
                AST::Null => {
                    if name == "==" {
                        return "eq".into();
                    }
                    if name == "!=" {
                        return "neq".into();
                    }
                }
                _ => {}
            }
        }
        name.to_owned()
    }

    /// Compile `a` so that exactly one value is left on the operand stack.
    fn expr(&mut self, f: &mut Frame, a: &AST) {
        match a {
            AST::Integer(i) => {
                let c = self.pool.add(Const::Int(*i));
                f.code.push(Ins::Lit(c));
            }
            AST::Boolean(b) => {
                let c = self.pool.add(Const::Bool(*b));
                f.code.push(Ins::Lit(c));
            }
            AST::Null => {
                let c = self.pool.add(Const::Null);
                f.code.push(Ins::Lit(c));
            }
            AST::Variable { name, value } => {
                self.expr(f, value);
                let name = name.as_str();
                if f.is_top && f.scopes.is_empty() {
                    let n = self.pool.s(name);
                    if !self.global_names.iter().any(|g| g == name) {
                        self.global_names.push(name.to_owned());
                        let slot = self.pool.add(Const::Slot(n));
                        self.globals.push(slot);
                    } else {
                        self.error.get_or_insert(format!("global {} defined twice", name));
                    }
                    f.code.push(Ins::SetGlobal(n));
                } else {
                    if f.scopes.last().unwrap().contains_key(name) {
                        self.error.get_or_insert(format!("{} defined twice in a scope", name));
                    }
                    let k = self.new_slot(f);
                    f.scopes.last_mut().unwrap().insert(name.to_owned(), k);
                    f.code.push(Ins::SetLocal(k));
                }
            }
            AST::AccessVariable { name } => match self.resolve(f, name.as_str()) {
                Some(k) => f.code.push(Ins::GetLocal(k)),
                None => {
                    let n = self.pool.s(name.as_str());
                    f.code.push(Ins::GetGlobal(n));
                }
            },
            AST::AssignVariable { name, value } => {
                let target = self.resolve(f, name.as_str());
                self.expr(f, value);
                match target {
                    Some(k) => f.code.push(Ins::SetLocal(k)),
                    None => {
                        let n = self.pool.s(name.as_str());
                        f.code.push(Ins::SetGlobal(n));
                    }
                }
            }
            AST::Conditional { condition, consequent, alternative } => {
                self.expr(f, condition);
                let lt = self.label("then");
                let le = self.label("endif");
                let lt_c = self.pool.s(&lt);
                let le_c = self.pool.s(&le);
                // compile the branches in textual order into side buffers
                let saved = std::mem::take(&mut f.code);
                self.expr(f, consequent);
                let then_code = std::mem::take(&mut f.code);
                self.expr(f, alternative);
                let else_code = std::mem::replace(&mut f.code, saved);
                if self.conv.layout_b {
                    let lx = self.label("else");
                    let lx_c = self.pool.s(&lx);
                    f.code.push(Ins::Branch(lt_c));
                    let g = self.pool.s(&lx);
                    f.code.push(Ins::Goto(g));
                    let l2 = self.pool.s(&lt);
                    f.code.push(Ins::Label(l2));
                    f.code.extend(then_code);
                    f.code.push(Ins::Goto(le_c));
                    f.code.push(Ins::Label(lx_c));
                    f.code.extend(else_code);
                    let l3 = self.pool.s(&le);
                    f.code.push(Ins::Label(l3));
                } else {
                    f.code.push(Ins::Branch(lt_c));
                    f.code.extend(else_code);
                    f.code.push(Ins::Goto(le_c));
                    let l2 = self.pool.s(&lt);
                    f.code.push(Ins::Label(l2));
                    f.code.extend(then_code);
                    let l3 = self.pool.s(&le);
                    f.code.push(Ins::Label(l3));
                }
            }
            AST::Loop { condition, body } => {
                let lc = self.label("cond");
                let lb = self.label("body");
                let le = self.label("endloop");
                let c1 = self.pool.s(&lc);
                f.code.push(Ins::Label(c1));
                self.expr(f, condition);
                let b1 = self.pool.s(&lb);
                f.code.push(Ins::Branch(b1));
                let e1 = self.pool.s(&le);
                f.code.push(Ins::Goto(e1));
                let b2 = self.pool.s(&lb);
                f.code.push(Ins::Label(b2));
                self.expr(f, body);
                f.code.push(Ins::Drop);
                let c2 = self.pool.s(&lc);
                f.code.push(Ins::Goto(c2));
                let e2 = self.pool.s(&le);
                f.code.push(Ins::Label(e2));
                let n = self.pool.add(Const::Null);
                f.code.push(Ins::Lit(n));
            }
            AST::Block(ss) => {
                f.scopes.push(HashMap::new());
                if ss.is_empty() {
                    let n = self.pool.add(Const::Null);
                    f.code.push(Ins::Lit(n));
                }
                let n = ss.len();
                for (i, s) in ss.iter().enumerate() {
                    self.expr(f, s);
                    if i + 1 < n {
                        f.code.push(Ins::Drop);
                    }
                }
                f.scopes.pop();
            }
            AST::Array { size, value } => {
                if super::refsem::is_simple_init(value) {
                    self.expr(f, size);
                    self.expr(f, value);
                    f.code.push(Ins::Array);
                } else {
                    let t_size = self.new_slot(f);
                    let t_arr = self.new_slot(f);
                    let t_i = self.new_slot(f);
                    let lc = self.label("acond");
                    let lb = self.label("abody");
                    let le = self.label("aend");
                    self.expr(f, size);
                    f.code.push(Ins::SetLocal(t_size));
                    let nul = self.pool.add(Const::Null);
                    f.code.push(Ins::Lit(nul));
                    f.code.push(Ins::Array);
                    f.code.push(Ins::SetLocal(t_arr));
                    f.code.push(Ins::Drop);
                    let zero = self.pool.add(Const::Int(0));
                    f.code.push(Ins::Lit(zero));
                    f.code.push(Ins::SetLocal(t_i));
                    f.code.push(Ins::Drop);
                    let c1 = self.pool.s(&lc);
                    f.code.push(Ins::Label(c1));
                    f.code.push(Ins::GetLocal(t_i));
                    f.code.push(Ins::GetLocal(t_size));
                    let lt = if self.conv.feeny && self.rng.coin() { "lt" } else { "<" };
                    let lt_c = self.pool.s(lt);
                    f.code.push(Ins::CallSlot(lt_c, 2));
                    let b1 = self.pool.s(&lb);
                    f.code.push(Ins::Branch(b1));
                    let e1 = self.pool.s(&le);
                    f.code.push(Ins::Goto(e1));
                    let b2 = self.pool.s(&lb);
                    f.code.push(Ins::Label(b2));
                    f.code.push(Ins::GetLocal(t_arr));
                    f.code.push(Ins::GetLocal(t_i));
                    f.scopes.push(HashMap::new());
                    self.expr(f, value);
                    f.scopes.pop();
                    let set = self.pool.s("set");
                    f.code.push(Ins::CallSlot(set, 3));
                    f.code.push(Ins::Drop);
                    f.code.push(Ins::GetLocal(t_i));
                    let one = self.pool.add(Const::Int(1));
                    f.code.push(Ins::Lit(one));
                    let add = if self.conv.feeny && self.rng.coin() { "add" } else { "+" };
                    let add_c = self.pool.s(add);
                    f.code.push(Ins::CallSlot(add_c, 2));
                    f.code.push(Ins::SetLocal(t_i));
                    f.code.push(Ins::Drop);
                    let c2 = self.pool.s(&lc);
                    f.code.push(Ins::Goto(c2));
                    let e2 = self.pool.s(&le);
                    f.code.push(Ins::Label(e2));
                    f.code.push(Ins::GetLocal(t_arr));
                }
            }
            AST::AccessArray { array, index } => {
                self.expr(f, array);
                self.expr(f, index);
                let g = self.pool.s("get");
                f.code.push(Ins::CallSlot(g, 2));
            }
            AST::AssignArray { array, index, value } => {
                self.expr(f, array);
                self.expr(f, index);
                self.expr(f, value);
                let g = self.pool.s("set");
                f.code.push(Ins::CallSlot(g, 3));
            }
            AST::AccessField { object, field } => {
                self.expr(f, object);
                let n = self.pool.s(field.as_str());
                f.code.push(Ins::GetSlot(n));
            }
            AST::AssignField { object, field, value } => {
                self.expr(f, object);
                self.expr(f, value);
                let n = self.pool.s(field.as_str());
                f.code.push(Ins::SetSlot(n));
            }
            AST::Object { extends, members } => {
                self.expr(f, extends);
                let mut class: Vec<u16> = Vec::new();
                for m in members {
                    match &**m {
                        AST::Variable { name, value } => {
                            self.expr(f, value);
                            let n = self.pool.s(name.as_str());
                            // slot constants of a class must be distinct entries when names
                            // repeat only in erroneous programs; sharing is fine
                            class.push(self.pool.add(Const::Slot(n)));
                        }
                        AST::Function { name, parameters, body } => {
                            let mi = self.method(name.as_str(), parameters, body, true);
                            class.push(mi);
                        }
                        _ => {
                            self.error.get_or_insert("object member is neither field nor method".into());
                        }
                    }
                }
                let c = self.pool.add(Const::Class(class));
                f.code.push(Ins::Object(c));
            }
            AST::CallFunction { name, arguments } => {
                for x in arguments {
                    self.expr(f, x);
                }
                if arguments.len() > 255 {
                    self.error.get_or_insert("too many arguments".into());
                }
                let n = self.pool.s(name.as_str());
                f.code.push(Ins::Call(n, arguments.len() as u8));
            }
            AST::CallMethod { object, name, arguments } => {
                self.expr(f, object);
                for x in arguments {
                    self.expr(f, x);
                }
                if arguments.len() > 254 {
                    self.error.get_or_insert("too many arguments".into());
                }
                let spelled = if arguments.len() == 1 { self.spelled(object, name.as_str()) } else { name.as_str().to_owned() };
                let n = self.pool.s(&spelled);
                f.code.push(Ins::CallSlot(n, (arguments.len() + 1) as u8));
            }
            AST::Print { format, arguments } => {
                for x in arguments {
                    self.expr(f, x);
                }
                if arguments.len() > 255 {
                    self.error.get_or_insert("too many arguments".into());
                }
                let n = self.pool.s(format);
                f.code.push(Ins::Print(n, arguments.len() as u8));
            }
            AST::Function { .. } | AST::Top(_) => {
                self.error.get_or_insert("function or Top in expression position".into());
                let n = self.pool.add(Const::Null);
                f.code.push(Ins::Lit(n));
            }
        }
    }

    /// Compile a function or method into a Method constant; returns its index.
    fn method(&mut self, name: &str, params: &Vec<Identifier>, body: &AST, receiver: bool) -> u16 {
        let arity = params.len() + receiver as usize;
        if arity > 255 {
            self.error.get_or_insert("too many parameters".into());
        }
        let mut scope = HashMap::new();
        let mut k = 0u16;
        if receiver {
            scope.insert("this".to_owned(), 0u16);
            k = 1;
        }
        for p in params {
            if scope.insert(p.as_str().to_owned(), k).is_some() {
                self.error.get_or_insert(format!("duplicate parameter {}", p.as_str()));
            }
            k += 1;
        }
        let mut f = Frame { scopes: vec![scope], arity: arity as u16, next_slot: arity as u16, is_top: false, code: Vec::new() };
        self.expr(&mut f, body);
        f.code.push(Ins::Return);
        let n = self.pool.s(name);
        let locals = f.next_slot - f.arity;
        // methods are never shared
        self.pool.consts.push(Const::Method { name: n, arity: arity as u8, locals, code: f.code });
        (self.pool.consts.len() - 1) as u16
    }
}

fn remap_ins(i: &Ins, m: &[u16]) -> Ins {
    let r = |x: &u16| m[*x as usize];
    match i {
        Ins::Label(a) => Ins::Label(r(a)),
        Ins::Lit(a) => Ins::Lit(r(a)),
        Ins::Print(a, n) => Ins::Print(r(a), *n),
        Ins::Array => Ins::Array,
        Ins::Object(a) => Ins::Object(r(a)),
        Ins::GetSlot(a) => Ins::GetSlot(r(a)),
        Ins::SetSlot(a) => Ins::SetSlot(r(a)),
        Ins::CallSlot(a, n) => Ins::CallSlot(r(a), *n),
        Ins::Call(a, n) => Ins::Call(r(a), *n),
        Ins::SetLocal(a) => Ins::SetLocal(*a),
        Ins::GetLocal(a) => Ins::GetLocal(*a),
        Ins::SetGlobal(a) => Ins::SetGlobal(r(a)),
        Ins::GetGlobal(a) => Ins::GetGlobal(r(a)),
        Ins::Branch(a) => Ins::Branch(r(a)),
        Ins::Goto(a) => Ins::Goto(r(a)),
        Ins::Return => Ins::Return,
        Ins::Drop => Ins::Drop,
    }
}

/// Apply a permutation to the constant pool: constant `i` moves to `perm[i]`.
pub fn permute(p: &Prog, perm: &[u16]) -> Prog {
    let mut consts: Vec<Option<Const>> = vec![None; p.consts.len()];
    for (i, c) in p.consts.iter().enumerate() {
        let nc = match c {
            Const::Method { name, arity, locals, code } => {
                Const::Method { name: perm[*name as usize], arity: *arity, locals: *locals, code: code.iter().map(|x| remap_ins(x, perm)).collect() }
            }
            Const::Slot(n) => Const::Slot(perm[*n as usize]),
            Const::Class(v) => Const::Class(v.iter().map(|x| perm[*x as usize]).collect()),
            other => other.clone(),
        };
        consts[perm[i] as usize] = Some(nc);
    }
    Prog { consts: consts.into_iter().map(|c| c.unwrap()).collect(), globals: p.globals.iter().map(|g| perm[*g as usize]).collect(), entry: perm[p.entry as usize] }
}

/// Compile a whole program. Err = the program is outside what altcc translates
/// (static failures, function definitions in expression position).
pub fn compile(top: &AST, rng: &mut Rng) -> Result<Prog, String> {
    let conv = Conv { dedup: rng.coin(), label_style: rng.below(9) as u8, gap_chance: rng.below(4) as u32, feeny: rng.coin(), layout_b: rng.coin() };
    let stmts = match top {
        AST::Top(ss) => ss,
        _ => return Err("not a Top".into()),
    };
    let dedup = conv.dedup;
    let mut cc = Cc { rng, conv, pool: Pool { consts: Vec::new(), dedup }, globals: Vec::new(), global_names: Vec::new(), labels: 0, error: None };
    let mut f = Frame { scopes: Vec::new(), arity: 0, next_slot: 0, is_top: true, code: Vec::new() };
    let mut fnames: Vec<String> = Vec::new();
    let mut have_value = false;
    for s in stmts.iter() {
        if let AST::Function { name, parameters, body } = &**s {
            if fnames.iter().any(|n| n == name.as_str()) {
                return Err(format!("function {} defined twice", name.as_str()));
            }
            fnames.push(name.as_str().to_owned());
            let mi = cc.method(name.as_str(), parameters, body, false);
            cc.globals.push(mi);
        } else {
            if have_value {
                f.code.push(Ins::Drop);
            }
            cc.expr(&mut f, s);
            have_value = true;
        }
    }
    if !have_value {
        let n = cc.pool.add(Const::Null);
        f.code.push(Ins::Lit(n));
    }
    if let Some(e) = cc.error.take() {
        return Err(e);
    }
    let en = cc.pool.s(if cc.rng.coin() { "λ:" } else { "main" });
    let locals = f.next_slot;
    cc.pool.consts.push(Const::Method { name: en, arity: 0, locals, code: f.code });
    let entry = (cc.pool.consts.len() - 1) as u16;
    if cc.pool.consts.len() > 60000 {
        return Err("constant pool too large".into());
    }
    let mut globals = std::mem::take(&mut cc.globals);
    cc.rng.shuffle(&mut globals);
    let p = Prog { consts: std::mem::take(&mut cc.pool.consts), globals, entry };
    // random constant order (which is also the method order in the file)
    let n = p.consts.len();
    let mut perm: Vec<u16> = (0..n as u16).collect();
    if cc.rng.chance(3, 4) {
        cc.rng.shuffle(&mut perm);
    }
    let mut q = permute(&p, &perm);
    // the entry method must end in `return` unless it is the last method in the file
    let last_method = q.method_indices().last().copied().unwrap();
    let entry_is_last = last_method == q.entry as usize;
    let add_return = !entry_is_last || cc.rng.coin();
    if add_return {
        let e = q.entry as usize;
        if let Const::Method { code, .. } = &mut q.consts[e] {
            code.push(Ins::Return);
        }
    }
    Ok(q)
}
