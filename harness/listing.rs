//! Reader for the output of `fml disassemble` (property C17). Liberal about
//! surrounding whitespace and leading zeros, otherwise tied to the listing
//! grammar: sections `Constant Pool:`, `Entry:`, `Globals:`, `Code:`; one
//! numbered line per constant / global / instruction.

use super::bcfmt::{Const, Ins, Prog};

#[derive(Debug, Clone)]
pub enum LConst {
    Int(i32),
    Null,
    Bool(bool),
    Str(String),
    Slot(u16),
    Class(Vec<u16>),
    Method { name: u16, arity: u8, locals: u16, start: usize, len: usize },
}

#[derive(Debug, Clone)]
pub struct Listing {
    pub consts: Vec<LConst>,
    pub entry: u16,
    pub globals: Vec<u16>,
    pub code: Vec<Ins>,
}

fn cpi(s: &str) -> Result<u16, String> {
    let t = s.trim();
    let t = t.strip_prefix('#').ok_or_else(|| format!("expected #index, found {:?}", s))?;
    t.parse::<u16>().map_err(|_| format!("bad constant index {:?}", s))
}

fn local(s: &str) -> Result<u16, String> {
    let t = s.trim();
    let t = t.strip_prefix("::").ok_or_else(|| format!("expected ::index, found {:?}", s))?;
    t.parse::<u16>().map_err(|_| format!("bad local index {:?}", s))
}

fn numbered(line: &str) -> Option<(usize, &str)> {
    let t = line.trim_start();
    let colon = t.find(':')?;
    let n = t[..colon].trim().parse::<usize>().ok()?;
    let rest = &t[colon + 1..];
    Some((n, rest.strip_prefix(' ').unwrap_or(rest)))
}

fn parse_const(body: &str) -> Result<LConst, String> {
    let b = body.trim_end_matches(|c| c == '\r');
    if let Some(rest) = b.strip_prefix('"') {
        // a string: everything up to the final quote of the line
        let end = rest.rfind('"').ok_or_else(|| format!("unterminated string constant {:?}", b))?;
        if !rest[end + 1..].trim().is_empty() {
            return Err(format!("text after string constant {:?}", b));
        }
        return Ok(LConst::Str(rest[..end].to_owned()));
    }
    let t = b.trim();
    if t == "null" {
        return Ok(LConst::Null);
    }
    if t == "true" {
        return Ok(LConst::Bool(true));
    }
    if t == "false" {
        return Ok(LConst::Bool(false));
    }
    if let Some(r) = t.strip_prefix("slot ") {
        return Ok(LConst::Slot(cpi(r)?));
    }
    if t == "class" {
        return Ok(LConst::Class(vec![]));
    }
    if let Some(r) = t.strip_prefix("class ") {
        let mut v = Vec::new();
        for part in r.split(',') {
            if part.trim().is_empty() {
                continue;
            }
            v.push(cpi(part)?);
        }
        return Ok(LConst::Class(v));
    }
    if let Some(r) = t.strip_prefix("method ") {
        let parts: Vec<&str> = r.split_whitespace().collect();
        if parts.len() != 4 {
            return Err(format!("method constant with {} parts: {:?}", parts.len(), t));
        }
        let name = cpi(parts[0])?;
        let arity = parts[1].strip_prefix("args:").ok_or("missing args:")?.parse::<u8>().map_err(|_| "bad args")?;
        let locals = parts[2].strip_prefix("locals:").ok_or("missing locals:")?.parse::<u16>().map_err(|_| "bad locals")?;
        let range = parts[3];
        let dash = range.find('-').ok_or("bad range")?;
        let start = range[..dash].parse::<usize>().map_err(|_| "bad range start")?;
        let endtxt = &range[dash + 1..];
        let len = if endtxt == "∅" {
            0
        } else {
            let end = endtxt.parse::<usize>().map_err(|_| "bad range end")?;
            if end < start {
                return Err(format!("range end before start: {}", range));
            }
            end - start + 1
        };
        return Ok(LConst::Method { name, arity, locals, start, len });
    }
    t.parse::<i32>().map(LConst::Int).map_err(|_| format!("unrecognised constant {:?}", t))
}

fn parse_ins(body: &str) -> Result<Ins, String> {
    let t = body.trim();
    let two = |rest: &str| -> Result<(u16, u8), String> {
        let parts: Vec<&str> = rest.split_whitespace().collect();
        if parts.len() != 2 {
            return Err(format!("expected `#index count` in {:?}", rest));
        }
        Ok((cpi(parts[0])?, parts[1].parse::<u8>().map_err(|_| format!("bad count in {:?}", rest))?))
    };
    if t == "array" {
        return Ok(Ins::Array);
    }
    if t == "return" {
        return Ok(Ins::Return);
    }
    if t == "drop" {
        return Ok(Ins::Drop);
    }
    // longest mnemonics first
    if let Some(r) = t.strip_prefix("call slot ") {
        let (a, n) = two(r)?;
        return Ok(Ins::CallSlot(a, n));
    }
    if let Some(r) = t.strip_prefix("get local ") {
        return Ok(Ins::GetLocal(local(r)?));
    }
    if let Some(r) = t.strip_prefix("set local ") {
        return Ok(Ins::SetLocal(local(r)?));
    }
    if let Some(r) = t.strip_prefix("get global ") {
        return Ok(Ins::GetGlobal(cpi(r)?));
    }
    if let Some(r) = t.strip_prefix("set global ") {
        return Ok(Ins::SetGlobal(cpi(r)?));
    }
    if let Some(r) = t.strip_prefix("get slot ") {
        return Ok(Ins::GetSlot(cpi(r)?));
    }
    if let Some(r) = t.strip_prefix("set slot ") {
        return Ok(Ins::SetSlot(cpi(r)?));
    }
    if let Some(r) = t.strip_prefix("call ") {
        let (a, n) = two(r)?;
        return Ok(Ins::Call(a, n));
    }
    if let Some(r) = t.strip_prefix("printf ") {
        let (a, n) = two(r)?;
        return Ok(Ins::Print(a, n));
    }
    if let Some(r) = t.strip_prefix("lit ") {
        return Ok(Ins::Lit(cpi(r)?));
    }
    if let Some(r) = t.strip_prefix("object ") {
        return Ok(Ins::Object(cpi(r)?));
    }
    if let Some(r) = t.strip_prefix("label ") {
        return Ok(Ins::Label(cpi(r)?));
    }
    if let Some(r) = t.strip_prefix("goto ") {
        return Ok(Ins::Goto(cpi(r)?));
    }
    if let Some(r) = t.strip_prefix("branch ") {
        return Ok(Ins::Branch(cpi(r)?));
    }
    Err(format!("unrecognised instruction {:?}", t))
}

pub fn parse(text: &str) -> Result<Listing, String> {
    #[derive(PartialEq)]
    enum Sec {
        Start,
        Consts,
        Globals,
        Code,
    }
    let mut sec = Sec::Start;
    let mut consts = Vec::new();
    let mut globals = Vec::new();
    let mut code = Vec::new();
    let mut entry: Option<u16> = None;
    for (ln, raw) in text.split('\n').enumerate() {
        let line = raw.trim_end_matches('\r');
        let t = line.trim();
        // section headers can only appear where a numbered line is not expected to look like them
        match sec {
            Sec::Start => {
                if t.is_empty() {
                    continue;
                }
                if t == "Constant Pool:" {
                    sec = Sec::Consts;
                    continue;
                }
                return Err(format!("line {}: expected `Constant Pool:`, found {:?}", ln + 1, line));
            }
            Sec::Consts => {
                if let Some((n, body)) = numbered(line) {
                    if n != consts.len() {
                        return Err(format!("line {}: constant numbered {} but {} expected", ln + 1, n, consts.len()));
                    }
                    consts.push(parse_const(body).map_err(|e| format!("line {}: {}", ln + 1, e))?);
                    continue;
                }
                if let Some(r) = t.strip_prefix("Entry:") {
                    entry = Some(cpi(r).map_err(|e| format!("line {}: {}", ln + 1, e))?);
                    continue;
                }
                if t == "Globals:" {
                    sec = Sec::Globals;
                    continue;
                }
                if t.is_empty() {
                    continue;
                }
                return Err(format!("line {}: unexpected line in constant pool {:?}", ln + 1, line));
            }
            Sec::Globals => {
                if let Some((n, body)) = numbered(line) {
                    if n != globals.len() {
                        return Err(format!("line {}: global numbered {} but {} expected", ln + 1, n, globals.len()));
                    }
                    globals.push(cpi(body).map_err(|e| format!("line {}: {}", ln + 1, e))?);
                    continue;
                }
                if t == "Code:" {
                    sec = Sec::Code;
                    continue;
                }
                if t.is_empty() {
                    continue;
                }
                return Err(format!("line {}: unexpected line in globals {:?}", ln + 1, line));
            }
            Sec::Code => {
                if t.is_empty() {
                    continue;
                }
                match numbered(line) {
                    Some((n, body)) => {
                        if n != code.len() {
                            return Err(format!("line {}: instruction numbered {} but {} expected", ln + 1, n, code.len()));
                        }
                        code.push(parse_ins(body).map_err(|e| format!("line {}: {}", ln + 1, e))?);
                    }
                    None => return Err(format!("line {}: unexpected line in code {:?}", ln + 1, line)),
                }
            }
        }
    }
    if sec != Sec::Code {
        return Err("listing has no Code: section".into());
    }
    let entry = entry.ok_or("listing has no Entry: line")?;
    Ok(Listing { consts, entry, globals, code })
}

impl Listing {
    /// Rebuild the program the listing denotes; fails if method ranges do not fit the code.
    pub fn to_prog(&self) -> Result<Prog, String> {
        let mut consts = Vec::new();
        let mut covered = vec![0u8; self.code.len()];
        for (i, c) in self.consts.iter().enumerate() {
            consts.push(match c {
                LConst::Int(n) => Const::Int(*n),
                LConst::Null => Const::Null,
                LConst::Bool(b) => Const::Bool(*b),
                LConst::Str(s) => Const::Str(s.clone()),
                LConst::Slot(n) => Const::Slot(*n),
                LConst::Class(v) => Const::Class(v.clone()),
                LConst::Method { name, arity, locals, start, len } => {
                    if start + len > self.code.len() {
                        return Err(format!("constant #{}: range {}+{} exceeds code length {}", i, start, len, self.code.len()));
                    }
                    for k in *start..start + len {
                        covered[k] += 1;
                    }
                    Const::Method { name: *name, arity: *arity, locals: *locals, code: self.code[*start..start + len].to_vec() }
                }
            });
        }
        if let Some(k) = covered.iter().position(|c| *c != 1) {
            return Err(format!("instruction {} is listed in {} methods", k, covered[k]));
        }
        Ok(Prog { consts, globals: self.globals.clone(), entry: self.entry })
    }
}
