//! Runs the real `fml` binary (this very executable, which behaves exactly like
//! the normal CLI unless argv[1] == "verif-harness") as a subprocess and records
//! what is observable at the CLI boundary: stdout, stderr, exit status, signal.

use std::os::unix::fs::OpenOptionsExt;
use std::io::{Read, Write};
use std::os::unix::process::ExitStatusExt;
use std::path::Path;
use std::process::{Command, Stdio};
use std::time::{Duration, Instant};

#[derive(Clone, Debug)]
pub struct CliRun {
    pub stdout: Vec<u8>,
    pub stderr: Vec<u8>,
    pub code: Option<i32>,
    pub signal: Option<i32>,
    /// the generous wall-clock watchdog fired: the run is inconclusive
    pub timed_out: bool,
    pub spawn_error: Option<String>,
}

impl CliRun {
    pub fn success(&self) -> bool {
        self.code == Some(0)
    }
    pub fn out_str(&self) -> String {
        String::from_utf8_lossy(&self.stdout).into_owned()
    }
    pub fn err_str(&self) -> String {
        String::from_utf8_lossy(&self.stderr).into_owned()
    }
    pub fn describe(&self) -> String {
        format!(
            "exit={:?} signal={:?} timed_out={} stdout={:?} stderr={:?}",
            self.code,
            self.signal,
            self.timed_out,
            truncate(&self.out_str(), 400),
            truncate(&self.err_str(), 400)
        )
    }
}

pub fn truncate(s: &str, n: usize) -> String {
    if s.len() <= n {
        s.to_owned()
    } else {
        let mut end = n;
        while !s.is_char_boundary(end) {
            end -= 1;
        }
        format!("{}…(+{} bytes)", &s[..end], s.len() - end)
    }
}

pub struct Spec<'a> {
    pub exe: Option<&'a Path>,
    pub args: Vec<String>,
    /// further arguments that need not be UTF-8 (appended after `args`)
    pub os_args: Vec<std::ffi::OsString>,
    pub stdin: Option<Vec<u8>>,
    /// owned, so that a spec can outlive the path it was built from
    pub cwd: Option<std::path::PathBuf>,
    pub env: Vec<(String, String)>,
    pub timeout: Duration,
    /// deliver stdin in chunks of this many bytes with short pauses (short reads in the child)
    pub stdin_chunk: Option<usize>,
}

impl<'a> Spec<'a> {
    pub fn new(args: &[&str]) -> Spec<'a> {
        Spec { exe: None, args: args.iter().map(|s| s.to_string()).collect(), os_args: vec![], stdin: None, cwd: None, env: vec![], timeout: Duration::from_secs(60), stdin_chunk: None }
    }
    pub fn stdin(mut self, data: &[u8]) -> Self {
        self.stdin = Some(data.to_vec());
        self
    }
    pub fn chunked(mut self, n: usize) -> Self {
        self.stdin_chunk = Some(n.max(1));
        self
    }
    pub fn cwd(mut self, p: &Path) -> Self {
        self.cwd = Some(p.to_path_buf());
        self
    }
    pub fn exe(mut self, p: &'a Path) -> Self {
        self.exe = Some(p);
        self
    }
    pub fn os_arg(mut self, a: &std::ffi::OsStr) -> Self {
        self.os_args.push(a.to_os_string());
        self
    }
    pub fn env(mut self, k: &str, v: &str) -> Self {
        self.env.push((k.to_owned(), v.to_owned()));
        self
    }
}

pub fn run(spec: Spec) -> CliRun {
    let exe = match spec.exe {
        Some(p) => p.to_path_buf(),
        None => std::env::current_exe().expect("current_exe"),
    };
    let mut cmd = Command::new(exe);
    cmd.args(&spec.args);
    cmd.args(&spec.os_args);
    cmd.stdout(Stdio::piped()).stderr(Stdio::piped());
    cmd.stdin(if spec.stdin.is_some() { Stdio::piped() } else { Stdio::null() });
    if let Some(c) = &spec.cwd {
        cmd.current_dir(c);
    }
    for (k, v) in &spec.env {
        cmd.env(k, v);
    }
    // keep panics deterministic and short
    cmd.env_remove("RUST_BACKTRACE");
    let mut child = match cmd.spawn() {
        Ok(c) => c,
        Err(e) => {
            return CliRun { stdout: vec![], stderr: vec![], code: None, signal: None, timed_out: false, spawn_error: Some(e.to_string()) }
        }
    };
    let chunk = spec.stdin_chunk;
    let stdin_thread = spec.stdin.map(|data| {
        let mut si = child.stdin.take().unwrap();
        std::thread::spawn(move || match chunk {
            None => {
                let _ = si.write_all(&data);
            }
            Some(n) => {
                for c in data.chunks(n) {
                    if si.write_all(c).is_err() {
                        break;
                    }
                    let _ = si.flush();
                    std::thread::sleep(Duration::from_micros(120));
                }
            }
        })
    });
    let mut so = child.stdout.take().unwrap();
    let mut se = child.stderr.take().unwrap();
    let t_out = std::thread::spawn(move || {
        let mut v = Vec::new();
        let _ = so.read_to_end(&mut v);
        v
    });
    let t_err = std::thread::spawn(move || {
        let mut v = Vec::new();
        let _ = se.read_to_end(&mut v);
        v
    });
    let start = Instant::now();
    let mut timed_out = false;
    let status = loop {
        match child.try_wait() {
            Ok(Some(s)) => break Some(s),
            Ok(None) => {
                if start.elapsed() > spec.timeout {
                    timed_out = true;
                    let _ = child.kill();
                    break child.wait().ok();
                }
                std::thread::sleep(Duration::from_micros(300));
            }
            Err(_) => break None,
        }
    };
    if let Some(t) = stdin_thread {
        let _ = t.join();
    }
    let stdout = t_out.join().unwrap_or_default();
    let stderr = t_err.join().unwrap_or_default();
    let (code, signal) = match status {
        Some(s) => (s.code(), s.signal()),
        None => (None, None),
    };
    CliRun { stdout, stderr, code, signal: if timed_out { None } else { signal }, timed_out, spawn_error: None }
}

/// `fml run <file>`
pub fn fml_run_file(path: &Path) -> CliRun {
    run(Spec::new(&["run", path.to_str().unwrap()]))
}

/// `fml run` with the program on stdin
pub fn fml_run_stdin(src: &str) -> CliRun {
    run(Spec::new(&["run"]).stdin(src.as_bytes()))
}

/// Run with stdout redirected to a file (like `fml … > file`).
pub fn run_stdout_to_file(spec: Spec, path: &Path) -> CliRun {
    let exe = match spec.exe {
        Some(p) => p.to_path_buf(),
        None => std::env::current_exe().expect("current_exe"),
    };
    let file = match std::fs::File::create(path) {
        Ok(f) => f,
        Err(e) => return CliRun { stdout: vec![], stderr: vec![], code: None, signal: None, timed_out: false, spawn_error: Some(e.to_string()) },
    };
    let mut cmd = Command::new(exe);
    cmd.args(&spec.args).stdout(Stdio::from(file)).stderr(Stdio::piped());
    cmd.stdin(if spec.stdin.is_some() { Stdio::piped() } else { Stdio::null() });
    cmd.env_remove("RUST_BACKTRACE");
    let mut child = match cmd.spawn() {
        Ok(c) => c,
        Err(e) => return CliRun { stdout: vec![], stderr: vec![], code: None, signal: None, timed_out: false, spawn_error: Some(e.to_string()) },
    };
    if let Some(data) = spec.stdin {
        let mut si = child.stdin.take().unwrap();
        std::thread::spawn(move || {
            let _ = si.write_all(&data);
        });
    }
    let mut se = child.stderr.take().unwrap();
    let t_err = std::thread::spawn(move || {
        let mut v = Vec::new();
        let _ = se.read_to_end(&mut v);
        v
    });
    let start = Instant::now();
    let mut timed_out = false;
    let status = loop {
        match child.try_wait() {
            Ok(Some(s)) => break Some(s),
            Ok(None) => {
                if start.elapsed() > spec.timeout {
                    timed_out = true;
                    let _ = child.kill();
                    break child.wait().ok();
                }
                std::thread::sleep(Duration::from_micros(300));
            }
            Err(_) => break None,
        }
    };
    let stderr = t_err.join().unwrap_or_default();
    let stdout = std::fs::read(path).unwrap_or_default();
    let (code, signal) = match status {
        Some(s) => (s.code(), s.signal()),
        None => (None, None),
    };
    CliRun { stdout, stderr, code, signal: if timed_out { None } else { signal }, timed_out, spawn_error: None }
}

/// Run with stdout on a pipe that the harness drains slowly in small reads.
pub fn run_slow_drain(spec: Spec, chunk: usize, pause: Duration) -> CliRun {
    let exe = match spec.exe {
        Some(p) => p.to_path_buf(),
        None => std::env::current_exe().expect("current_exe"),
    };
    let mut cmd = Command::new(exe);
    cmd.args(&spec.args).stdout(Stdio::piped()).stderr(Stdio::piped()).stdin(Stdio::null());
    cmd.env_remove("RUST_BACKTRACE");
    let mut child = match cmd.spawn() {
        Ok(c) => c,
        Err(e) => return CliRun { stdout: vec![], stderr: vec![], code: None, signal: None, timed_out: false, spawn_error: Some(e.to_string()) },
    };
    let mut so = child.stdout.take().unwrap();
    let mut se = child.stderr.take().unwrap();
    let t_err = std::thread::spawn(move || {
        let mut v = Vec::new();
        let _ = se.read_to_end(&mut v);
        v
    });
    let mut out = Vec::new();
    let mut buf = vec![0u8; chunk.max(1)];
    let start = Instant::now();
    let mut timed_out = false;
    loop {
        match so.read(&mut buf) {
            Ok(0) => break,
            Ok(n) => out.extend_from_slice(&buf[..n]),
            Err(_) => break,
        }
        if start.elapsed() > spec.timeout {
            timed_out = true;
            let _ = child.kill();
            break;
        }
        std::thread::sleep(pause);
    }
    let status = child.wait().ok();
    let stderr = t_err.join().unwrap_or_default();
    let (code, signal) = match status {
        Some(s) => (s.code(), s.signal()),
        None => (None, None),
    };
    CliRun { stdout: out, stderr, code, signal: if timed_out { None } else { signal }, timed_out, spawn_error: None }
}

/// Run `fml <pre…> PATH <post…>` where PATH names something that is not a regular file and delivers `data`:
/// kind 0 = /dev/stdin with a pipe behind it, 1 = a named pipe fed by a writer thread, 2 = /proc/self/fd/0.
pub fn run_input_not_a_file(kind: usize, pre: &[&str], data: &[u8], post: &[&str], dir: &Path, tag: &str) -> Option<CliRun> {
    match kind % 3 {
        0 | 2 => {
            let path = if kind % 3 == 0 { "/dev/stdin" } else { "/proc/self/fd/0" };
            let mut args: Vec<&str> = pre.to_vec();
            args.push(path);
            args.extend_from_slice(post);
            Some(run(Spec::new(&args).stdin(data)))
        }
        _ => {
            let fifo = dir.join(format!("{}.fifo", tag));
            let _ = std::fs::remove_file(&fifo);
            if !Command::new("mkfifo").arg(&fifo).status().map(|s| s.success()).unwrap_or(false) {
                return None;
            }
            let fp = fifo.clone();
            let owned = data.to_vec();
            // the writer blocks in open() until the child opens the pipe for reading; if the child never does,
            // a second opener below releases it
            let writer = std::thread::spawn(move || {
                if let Ok(mut w) = std::fs::OpenOptions::new().write(true).open(&fp) {
                    let _ = w.write_all(&owned);
                }
            });
            let mut args: Vec<&str> = pre.to_vec();
            let fs = fifo.to_str()?.to_string();
            args.push(&fs);
            args.extend_from_slice(post);
            let r = run(Spec::new(&args));
            // release a writer that is still waiting for a reader
            let _ = std::fs::OpenOptions::new().read(true).custom_flags(0o4000).open(&fifo);
            let _ = writer.join();
            let _ = std::fs::remove_file(&fifo);
            Some(r)
        }
    }
}

/// Run with stdout on a pipe whose reader takes `after` bytes and then closes its end.
pub fn run_close_early(spec: Spec, after: usize) -> CliRun {
    let exe = match spec.exe {
        Some(p) => p.to_path_buf(),
        None => std::env::current_exe().expect("current_exe"),
    };
    let mut cmd = Command::new(exe);
    cmd.args(&spec.args).stdout(Stdio::piped()).stderr(Stdio::piped()).stdin(Stdio::null());
    cmd.env_remove("RUST_BACKTRACE");
    let mut child = match cmd.spawn() {
        Ok(c) => c,
        Err(e) => return CliRun { stdout: vec![], stderr: vec![], code: None, signal: None, timed_out: false, spawn_error: Some(e.to_string()) },
    };
    let mut so = child.stdout.take().unwrap();
    let mut se = child.stderr.take().unwrap();
    let t_err = std::thread::spawn(move || {
        let mut v = Vec::new();
        let _ = se.read_to_end(&mut v);
        v
    });
    let mut out = vec![0u8; after];
    let mut got = 0usize;
    while got < after {
        match so.read(&mut out[got..]) {
            Ok(0) | Err(_) => break,
            Ok(n) => got += n,
        }
    }
    out.truncate(got);
    drop(so);
    // bounded wait
    let start = Instant::now();
    let mut timed_out = false;
    let status = loop {
        match child.try_wait() {
            Ok(Some(s)) => break Some(s),
            Ok(None) => {
                if start.elapsed() > spec.timeout {
                    timed_out = true;
                    let _ = child.kill();
                    break child.wait().ok();
                }
                std::thread::sleep(Duration::from_millis(2));
            }
            Err(_) => break None,
        }
    };
    let stderr = t_err.join().unwrap_or_default();
    let (code, signal) = match status {
        Some(s) => (s.code(), s.signal()),
        None => (None, None),
    };
    CliRun { stdout: out, stderr, code, signal: if timed_out { None } else { signal }, timed_out, spawn_error: None }
}

/// Run with stdin fed in small chunks with pauses, so that the child's reads return short counts.
pub fn run_chunked_stdin(spec: Spec, data: &[u8], chunk: usize, pause: Duration) -> CliRun {
    let exe = match spec.exe {
        Some(p) => p.to_path_buf(),
        None => std::env::current_exe().expect("current_exe"),
    };
    let mut cmd = Command::new(exe);
    cmd.args(&spec.args).stdout(Stdio::piped()).stderr(Stdio::piped()).stdin(Stdio::piped());
    cmd.env_remove("RUST_BACKTRACE");
    let mut child = match cmd.spawn() {
        Ok(c) => c,
        Err(e) => return CliRun { stdout: vec![], stderr: vec![], code: None, signal: None, timed_out: false, spawn_error: Some(e.to_string()) },
    };
    let mut si = child.stdin.take().unwrap();
    let owned = data.to_vec();
    let feeder = std::thread::spawn(move || {
        for c in owned.chunks(chunk.max(1)) {
            if si.write_all(c).is_err() {
                break;
            }
            let _ = si.flush();
            std::thread::sleep(pause);
        }
    });
    let mut so = child.stdout.take().unwrap();
    let mut se = child.stderr.take().unwrap();
    let t_out = std::thread::spawn(move || {
        let mut v = Vec::new();
        let _ = so.read_to_end(&mut v);
        v
    });
    let t_err = std::thread::spawn(move || {
        let mut v = Vec::new();
        let _ = se.read_to_end(&mut v);
        v
    });
    let start = Instant::now();
    let mut timed_out = false;
    let status = loop {
        match child.try_wait() {
            Ok(Some(s)) => break Some(s),
            Ok(None) => {
                if start.elapsed() > spec.timeout {
                    timed_out = true;
                    let _ = child.kill();
                    break child.wait().ok();
                }
                std::thread::sleep(Duration::from_micros(300));
            }
            Err(_) => break None,
        }
    };
    let _ = feeder.join();
    let stdout = t_out.join().unwrap_or_default();
    let stderr = t_err.join().unwrap_or_default();
    let (code, signal) = match status {
        Some(s) => (s.code(), s.signal()),
        None => (None, None),
    };
    CliRun { stdout, stderr, code, signal: if timed_out { None } else { signal }, timed_out, spawn_error: None }
}
