//! Independent reader and writer of the Feeny/FML binary bytecode layout,
//! written from the wording of property C04 and the OpCode/ProgramObject
//! doc-comments only. Shares no code with FML's (de)serializer.
//!
//! Layout: u16 constant count, tagged constants, u16-counted globals (u16
//! each), u16 entry; all little-endian; no trailing bytes.
//!   0x00 int  i32          0x01 null          0x02 string u32 byte-len + UTF-8
//!   0x03 method u16 name, u8 arity, u16 locals, u32 instruction count + ins
//!   0x04 slot u16 name     0x05 class u16 count + u16 each   0x06 bool u8 (0/1)
//! Instructions: 0x00 label u16, 0x01 lit u16, 0x02 printf u16 u8, 0x03 array,
//!   0x04 object u16, 0x05 get slot u16, 0x06 set slot u16, 0x07 call slot u16 u8,
//!   0x08 call u16 u8, 0x09 set local u16, 0x0A get local u16, 0x0B set global u16,
//!   0x0C get global u16, 0x0D branch u16, 0x0E goto u16, 0x0F return, 0x10 drop.

#[derive(Clone, Debug, PartialEq, Eq, Hash)]
pub enum Ins {
    Label(u16),
    Lit(u16),
    Print(u16, u8),
    Array,
    Object(u16),
    GetSlot(u16),
    SetSlot(u16),
    CallSlot(u16, u8),
    Call(u16, u8),
    SetLocal(u16),
    GetLocal(u16),
    SetGlobal(u16),
    GetGlobal(u16),
    Branch(u16),
    Goto(u16),
    Return,
    Drop,
}

#[derive(Clone, Debug, PartialEq, Eq, Hash)]
pub enum Const {
    Int(i32),
    Null,
    Str(String),
    Method { name: u16, arity: u8, locals: u16, code: Vec<Ins> },
    Slot(u16),
    Class(Vec<u16>),
    Bool(bool),
}

#[derive(Clone, Debug, PartialEq, Eq, Hash)]
pub struct Prog {
    pub consts: Vec<Const>,
    pub globals: Vec<u16>,
    pub entry: u16,
}

impl Ins {
    pub fn opcode(&self) -> u8 {
        match self {
            Ins::Label(_) => 0x00,
            Ins::Lit(_) => 0x01,
            Ins::Print(..) => 0x02,
            Ins::Array => 0x03,
            Ins::Object(_) => 0x04,
            Ins::GetSlot(_) => 0x05,
            Ins::SetSlot(_) => 0x06,
            Ins::CallSlot(..) => 0x07,
            Ins::Call(..) => 0x08,
            Ins::SetLocal(_) => 0x09,
            Ins::GetLocal(_) => 0x0A,
            Ins::SetGlobal(_) => 0x0B,
            Ins::GetGlobal(_) => 0x0C,
            Ins::Branch(_) => 0x0D,
            Ins::Goto(_) => 0x0E,
            Ins::Return => 0x0F,
            Ins::Drop => 0x10,
        }
    }
    pub fn mnemonic(&self) -> &'static str {
        match self {
            Ins::Label(_) => "label",
            Ins::Lit(_) => "lit",
            Ins::Print(..) => "printf",
            Ins::Array => "array",
            Ins::Object(_) => "object",
            Ins::GetSlot(_) => "get slot",
            Ins::SetSlot(_) => "set slot",
            Ins::CallSlot(..) => "call slot",
            Ins::Call(..) => "call",
            Ins::SetLocal(_) => "set local",
            Ins::GetLocal(_) => "get local",
            Ins::SetGlobal(_) => "set global",
            Ins::GetGlobal(_) => "get global",
            Ins::Branch(_) => "branch",
            Ins::Goto(_) => "goto",
            Ins::Return => "return",
            Ins::Drop => "drop",
        }
    }
}

struct Rd<'a> {
    b: &'a [u8],
    p: usize,
}

impl<'a> Rd<'a> {
    fn take(&mut self, n: usize, what: &str) -> Result<&'a [u8], String> {
        if self.p + n > self.b.len() {
            return Err(format!("truncated file: need {} byte(s) for {} at offset {}, file has {}", n, what, self.p, self.b.len()));
        }
        let s = &self.b[self.p..self.p + n];
        self.p += n;
        Ok(s)
    }
    fn u8(&mut self, what: &str) -> Result<u8, String> {
        Ok(self.take(1, what)?[0])
    }
    fn u16(&mut self, what: &str) -> Result<u16, String> {
        let s = self.take(2, what)?;
        Ok((s[0] as u16) | ((s[1] as u16) << 8))
    }
    fn u32(&mut self, what: &str) -> Result<u32, String> {
        let s = self.take(4, what)?;
        Ok((s[0] as u32) | ((s[1] as u32) << 8) | ((s[2] as u32) << 16) | ((s[3] as u32) << 24))
    }
}

/// Strict decoder: any deviation from the documented layout is an error.
pub fn read(bytes: &[u8]) -> Result<Prog, String> {
    let mut r = Rd { b: bytes, p: 0 };
    let n = r.u16("constant count")? as usize;
    let mut consts = Vec::with_capacity(n);
    for ci in 0..n {
        let at = r.p;
        let tag = r.u8("constant tag")?;
        let c = match tag {
            0x00 => Const::Int(r.u32("int")? as i32),
            0x01 => Const::Null,
            0x02 => {
                let len = r.u32("string length")? as usize;
                let raw = r.take(len, "string bytes")?;
                match std::str::from_utf8(raw) {
                    Ok(s) => Const::Str(s.to_owned()),
                    Err(e) => return Err(format!("constant #{} at offset {}: string is not UTF-8: {}", ci, at, e)),
                }
            }
            0x03 => {
                let name = r.u16("method name")?;
                let arity = r.u8("method arity")?;
                let locals = r.u16("method locals")?;
                let len = r.u32("method instruction count")? as usize;
                if len > bytes.len() {
                    return Err(format!("constant #{}: instruction count {} exceeds file size", ci, len));
                }
                let mut code = Vec::with_capacity(len);
                for _ in 0..len {
                    let iat = r.p;
                    let op = r.u8("opcode")?;
                    let ins = match op {
                        0x00 => Ins::Label(r.u16("label")?),
                        0x01 => Ins::Lit(r.u16("lit")?),
                        0x02 => {
                            let f = r.u16("printf format")?;
                            Ins::Print(f, r.u8("printf argc")?)
                        }
                        0x03 => Ins::Array,
                        0x04 => Ins::Object(r.u16("object class")?),
                        0x05 => Ins::GetSlot(r.u16("get slot")?),
                        0x06 => Ins::SetSlot(r.u16("set slot")?),
                        0x07 => {
                            let f = r.u16("call slot name")?;
                            Ins::CallSlot(f, r.u8("call slot argc")?)
                        }
                        0x08 => {
                            let f = r.u16("call name")?;
                            Ins::Call(f, r.u8("call argc")?)
                        }
                        0x09 => Ins::SetLocal(r.u16("set local")?),
                        0x0A => Ins::GetLocal(r.u16("get local")?),
                        0x0B => Ins::SetGlobal(r.u16("set global")?),
                        0x0C => Ins::GetGlobal(r.u16("get global")?),
                        0x0D => Ins::Branch(r.u16("branch")?),
                        0x0E => Ins::Goto(r.u16("goto")?),
                        0x0F => Ins::Return,
                        0x10 => Ins::Drop,
                        x => return Err(format!("constant #{}: unknown opcode 0x{:02x} at offset {}", ci, x, iat)),
                    };
                    code.push(ins);
                }
                Const::Method { name, arity, locals, code }
            }
            0x04 => Const::Slot(r.u16("slot name")?),
            0x05 => {
                let k = r.u16("class member count")? as usize;
                let mut v = Vec::with_capacity(k);
                for _ in 0..k {
                    v.push(r.u16("class member")?);
                }
                Const::Class(v)
            }
            0x06 => match r.u8("bool")? {
                0 => Const::Bool(false),
                1 => Const::Bool(true),
                x => return Err(format!("constant #{}: boolean byte is {} (must be 0 or 1)", ci, x)),
            },
            x => return Err(format!("constant #{} at offset {}: unknown tag 0x{:02x}", ci, at, x)),
        };
        consts.push(c);
    }
    let g = r.u16("globals count")? as usize;
    let mut globals = Vec::with_capacity(g);
    for _ in 0..g {
        globals.push(r.u16("global")?);
    }
    let entry = r.u16("entry")?;
    if r.p != bytes.len() {
        return Err(format!("{} trailing byte(s) after entry (file {} bytes, layout ends at {})", bytes.len() - r.p, bytes.len(), r.p));
    }
    Ok(Prog { consts, globals, entry })
}

fn w16(o: &mut Vec<u8>, v: u16) {
    o.push((v & 0xff) as u8);
    o.push((v >> 8) as u8);
}
fn w32(o: &mut Vec<u8>, v: u32) {
    o.push((v & 0xff) as u8);
    o.push(((v >> 8) & 0xff) as u8);
    o.push(((v >> 16) & 0xff) as u8);
    o.push((v >> 24) as u8);
}

pub fn write_ins(o: &mut Vec<u8>, i: &Ins) {
    o.push(i.opcode());
    match i {
        Ins::Label(a) | Ins::Lit(a) | Ins::Object(a) | Ins::GetSlot(a) | Ins::SetSlot(a)
        | Ins::SetLocal(a) | Ins::GetLocal(a) | Ins::SetGlobal(a) | Ins::GetGlobal(a)
        | Ins::Branch(a) | Ins::Goto(a) => w16(o, *a),
        Ins::Print(a, n) | Ins::CallSlot(a, n) | Ins::Call(a, n) => {
            w16(o, *a);
            o.push(*n);
        }
        Ins::Array | Ins::Return | Ins::Drop => {}
    }
}

pub fn write(p: &Prog) -> Vec<u8> {
    assert!(p.consts.len() <= 0xffff && p.globals.len() <= 0xffff);
    let mut o = Vec::new();
    w16(&mut o, p.consts.len() as u16);
    for c in &p.consts {
        match c {
            Const::Int(i) => {
                o.push(0x00);
                w32(&mut o, *i as u32);
            }
            Const::Null => o.push(0x01),
            Const::Str(s) => {
                o.push(0x02);
                w32(&mut o, s.len() as u32);
                o.extend_from_slice(s.as_bytes());
            }
            Const::Method { name, arity, locals, code } => {
                o.push(0x03);
                w16(&mut o, *name);
                o.push(*arity);
                w16(&mut o, *locals);
                w32(&mut o, code.len() as u32);
                for i in code {
                    write_ins(&mut o, i);
                }
            }
            Const::Slot(n) => {
                o.push(0x04);
                w16(&mut o, *n);
            }
            Const::Class(v) => {
                o.push(0x05);
                w16(&mut o, v.len() as u16);
                for m in v {
                    w16(&mut o, *m);
                }
            }
            Const::Bool(b) => {
                o.push(0x06);
                o.push(if *b { 1 } else { 0 });
            }
        }
    }
    w16(&mut o, p.globals.len() as u16);
    for g in &p.globals {
        w16(&mut o, *g);
    }
    w16(&mut o, p.entry);
    o
}

impl Prog {
    pub fn str_at(&self, i: u16) -> Option<&str> {
        match self.consts.get(i as usize) {
            Some(Const::Str(s)) => Some(s.as_str()),
            _ => None,
        }
    }
    pub fn n_instructions(&self) -> usize {
        self.consts.iter().map(|c| if let Const::Method { code, .. } = c { code.len() } else { 0 }).sum()
    }
    /// Indices of method constants in file order.
    pub fn method_indices(&self) -> Vec<usize> {
        self.consts.iter().enumerate().filter(|(_, c)| matches!(c, Const::Method { .. })).map(|(i, _)| i).collect()
    }
    /// A short human-readable dump used in samples and replay files.
    pub fn dump(&self) -> String {
        let mut s = String::new();
        for (i, c) in self.consts.iter().enumerate() {
            match c {
                Const::Method { name, arity, locals, code } => {
                    s.push_str(&format!("#{} method name=#{} arity={} locals={}\n", i, name, arity, locals));
                    for ins in code {
                        s.push_str(&format!("    {:?}\n", ins));
                    }
                }
                other => s.push_str(&format!("#{} {:?}\n", i, other)),
            }
        }
        s.push_str(&format!("globals={:?} entry=#{}\n", self.globals, self.entry));
        s
    }
}
