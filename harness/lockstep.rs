//! Lock-step shadow: FML's VM is advanced one instruction at a time with
//! `eval_opcode` while the reference machine executes the same instruction;
//! after every instruction the observable machine state is compared.

use std::collections::HashMap;
use std::panic::{catch_unwind, AssertUnwindSafe};

use crate::bytecode::heap::{HeapIndex, HeapObject, Pointer};
use crate::bytecode::interpreter::eval_opcode;
use crate::bytecode::program::{LocalFrameIndex, Program, ProgramObject};
use crate::bytecode::state::State;

use super::bcfmt::{Const, Ins, Prog};
use super::prim::{HObj, V};
use super::refvm::{Machine, Ret, Status};

pub struct LockResult {
    pub steps: u64,
    /// first point where FML's VM and the reference disagree
    pub divergence: Option<String>,
    pub ref_status: Status,
    pub real_ok: bool,
    pub real_err: String,
    pub out: String,
    pub capped: bool,
    pub opcode_hist: [u64; 17],
    pub dispatch_hist: HashMap<String, u64>,
    pub max_stack: usize,
    pub heap_objects: usize,
    /// observed operand-stack depth before each executed instruction: (method, offset) -> depth
    pub depths: HashMap<(usize, usize), usize>,
    pub depth_conflict: Option<String>,
}

/// address layout of `real`: for each method constant (index), its start address and length
pub fn layout_of(real: &Program) -> Vec<(usize, usize, usize)> {
    let mut v = Vec::new();
    for (i, c) in real.constant_pool.iter().enumerate() {
        if let ProgramObject::Method { code, .. } = c {
            v.push((i, code.start().value_usize(), code.length()));
        }
    }
    v
}

fn locate(layout: &[(usize, usize, usize)], addr: usize) -> Option<(usize, usize)> {
    for (ci, start, len) in layout {
        if addr >= *start && addr < *start + *len {
            return Some((*ci, addr - *start));
        }
    }
    None
}

struct Bij {
    r2s: HashMap<usize, usize>,
    s2r: HashMap<usize, usize>,
}

impl Bij {
    fn same(&mut self, real: &Pointer, shadow: &V) -> bool {
        match (real, shadow) {
            (Pointer::Null, V::Null) => true,
            (Pointer::Integer(a), V::Int(b)) => a == b,
            (Pointer::Boolean(a), V::Bool(b)) => a == b,
            (Pointer::Reference(h), V::Ref(s)) => {
                let r = h.as_usize();
                match (self.r2s.get(&r), self.s2r.get(s)) {
                    (Some(x), _) => x == s,
                    (None, Some(_)) => false,
                    (None, None) => {
                        self.r2s.insert(r, *s);
                        self.s2r.insert(*s, r);
                        true
                    }
                }
            }
            _ => false,
        }
    }
}

fn stack_of(state: &State) -> Vec<Pointer> {
    let mut s = state.operand_stack.clone();
    let mut v = Vec::new();
    while let Ok(p) = s.pop() {
        v.push(p);
    }
    v.reverse();
    v
}

fn compare_object(bij: &mut Bij, state: &State, m: &Machine, shadow_idx: usize) -> Option<String> {
    let real_idx = match bij.s2r.get(&shadow_idx) {
        Some(r) => *r,
        None => return None, // never observed by the real machine yet
    };
    let ro = match state.heap.dereference(&HeapIndex::from(real_idx)) {
        Ok(o) => o,
        Err(_) => return Some(format!("real heap has no object at {} (shadow object {})", real_idx, shadow_idx)),
    };
    match (ro, &m.heap[shadow_idx]) {
        (HeapObject::Array(a), HObj::Array(es)) => {
            if a.length() != es.len() {
                return Some(format!("array {}: real length {} vs reference {}", shadow_idx, a.length(), es.len()));
            }
            for (i, (rp, sv)) in a.iter().zip(es.iter()).enumerate() {
                if !bij.same(rp, sv) {
                    return Some(format!("array {} element {}: real {:?} vs reference {:?}", shadow_idx, i, rp, sv));
                }
            }
            None
        }
        (HeapObject::Object(o), HObj::Object { parent, fields, methods }) => {
            if !bij.same(&o.parent, parent) {
                return Some(format!("object {} parent: real {:?} vs reference {:?}", shadow_idx, o.parent, parent));
            }
            if o.fields.len() != fields.len() {
                return Some(format!("object {}: real has {} fields, reference {}", shadow_idx, o.fields.len(), fields.len()));
            }
            for (n, sv) in fields {
                match o.fields.get(n) {
                    Some(rp) => {
                        if !bij.same(rp, sv) {
                            return Some(format!("object {} field {}: real {:?} vs reference {:?}", shadow_idx, n, rp, sv));
                        }
                    }
                    None => return Some(format!("object {}: real lacks field {}", shadow_idx, n)),
                }
            }
            if o.methods.len() != methods.len() {
                return Some(format!("object {}: real has {} methods, reference {}", shadow_idx, o.methods.len(), methods.len()));
            }
            for (n, _) in methods {
                if !o.methods.contains_key(n) {
                    return Some(format!("object {}: real lacks method {}", shadow_idx, n));
                }
            }
            None
        }
        (HeapObject::Array(_), _) => Some(format!("object {}: real is an array, reference an object", shadow_idx)),
        (HeapObject::Object(_), _) => Some(format!("object {}: real is an object, reference an array", shadow_idx)),
    }
}

/// elements `from..to` (clipped) and the length of a large array
fn compare_cells(bij: &mut Bij, state: &State, m: &Machine, shadow_idx: usize, from: usize, to: usize) -> Option<String> {
    let real_idx = match bij.s2r.get(&shadow_idx) {
        Some(r) => *r,
        None => return None,
    };
    match (state.heap.dereference(&HeapIndex::from(real_idx)), &m.heap[shadow_idx]) {
        (Ok(HeapObject::Array(a)), HObj::Array(es)) => {
            if a.length() != es.len() {
                return Some(format!("array {}: real length {} vs reference {}", shadow_idx, a.length(), es.len()));
            }
            for (i, (rp, sv)) in a.iter().zip(es.iter()).enumerate().skip(from).take(to.saturating_sub(from)) {
                if !bij.same(rp, sv) {
                    return Some(format!("array {} element {}: real {:?} vs reference {:?}", shadow_idx, i, rp, sv));
                }
            }
            None
        }
        _ => compare_object(bij, state, m, shadow_idx),
    }
}

fn compare_globals(bij: &mut Bij, state: &State, m: &Machine) -> Option<String> {
    for (name, sv) in &m.globals {
        match state.frame_stack.globals.get(name) {
            Ok(rp) => {
                if !bij.same(rp, sv) {
                    return Some(format!("global {}: real {:?} vs reference {:?}", name, rp, sv));
                }
            }
            Err(_) => return Some(format!("global {} missing in real state", name)),
        }
    }
    None
}

/// Run `real` (as loaded/compiled by FML) against `prog` (the same program as decoded by
/// the harness) in lock-step. `layout` maps flat addresses to (method, offset).
pub fn run(real: &Program, prog: &Prog, cap: u64) -> LockResult {
    let layout = layout_of(real);
    let mut res = LockResult {
        steps: 0,
        divergence: None,
        ref_status: Status::Running,
        real_ok: true,
        real_err: String::new(),
        out: String::new(),
        capped: false,
        opcode_hist: [0; 17],
        dispatch_hist: HashMap::new(),
        max_stack: 0,
        heap_objects: 0,
        depths: HashMap::new(),
        depth_conflict: None,
    };
    let state0 = catch_unwind(AssertUnwindSafe(|| State::from(real)));
    let mut m = match Machine::new(prog) {
        Ok(m) => m,
        Err(e) => {
            // the reference refuses to start: FML must refuse too
            res.ref_status = Status::Failed(format!("static: {}", e));
            match state0 {
                Ok(Ok(_)) => res.divergence = Some(format!("reference refuses to start ({}) but FML's State::from succeeds", e)),
                _ => res.real_ok = false,
            }
            return res;
        }
    };
    let mut state = match state0 {
        Ok(Ok(s)) => s,
        Ok(Err(e)) => {
            res.real_ok = false;
            res.real_err = format!("{:#}", e);
            res.divergence = Some(format!("FML refuses to start a program the reference accepts: {:#}", e));
            return res;
        }
        Err(_) => {
            res.real_ok = false;
            res.real_err = "panic in State::from".into();
            res.divergence = Some("FML panics in State::from on a program the reference accepts".into());
            return res;
        }
    };
    let mut out = String::new();
    let mut bij = Bij { r2s: HashMap::new(), s2r: HashMap::new() };
    // output only grows: each step compares the lengths and the part added since the last step
    // (the whole text once more at the end); full heap sweeps are spaced so that their cost stays
    // proportional to the number of steps even with 10^5 live objects
    let mut out_seen = 0usize;
    let mut next_sweep = 128u64;
    loop {
        // --- compare instruction pointers before executing
        let real_ip = state.instruction_pointer.get().map(|a| a.value_usize());
        let real_loc = real_ip.and_then(|a| locate(&layout, a));
        match (m.status.clone(), real_ip) {
            (Status::Running, Some(a)) => {
                if real_loc != m.ip {
                    res.divergence = Some(format!("instruction pointer: real at address {} = {:?}, reference at {:?}", a, real_loc, m.ip));
                    break;
                }
            }
            (Status::Running, None) => {
                res.divergence = Some(format!("real VM halted but reference continues at {:?}", m.ip));
                break;
            }
            (Status::Halted, None) => break,
            (Status::Halted, Some(a)) => {
                res.divergence = Some(format!("reference halted but real VM continues at address {} = {:?}", a, real_loc));
                break;
            }
            _ => break,
        }
        if res.steps >= cap {
            res.capped = true;
            break;
        }
        let (mi, off) = m.ip.unwrap();
        // depth relative to the current frame (what a per-method static analysis computes)
        let depth_before = m.stack.len() - m.frames.last().map(|f| f.base).unwrap_or(0);
        match res.depths.get(&(mi, off)) {
            Some(d) if *d != depth_before && res.depth_conflict.is_none() => {
                res.depth_conflict = Some(format!("#{}+{} executed with operand depth {} and {}", mi, off, d, depth_before));
            }
            None => {
                res.depths.insert((mi, off), depth_before);
            }
            _ => {}
        }
        let ins: Ins = match &prog.consts[mi] {
            Const::Method { code, .. } => code[off].clone(),
            _ => unreachable!(),
        };
        // --- step both
        res.steps += 1;
        let addr = state.instruction_pointer.get().unwrap();
        let real_step = catch_unwind(AssertUnwindSafe(|| {
            let opcode = real.code.get(addr)?;
            eval_opcode(real, &mut state, &mut out, opcode)
        }));
        m.step();
        let real_failed = match &real_step {
            Ok(Ok(())) => None,
            Ok(Err(e)) => Some(format!("{:#}", e)),
            Err(_) => Some("panic".to_string()),
        };
        match (&m.status, &real_failed) {
            (Status::NonConforming(_), _) | (Status::Ambiguous(_), _) => break,
            (Status::Failed(why), None) => {
                res.divergence = Some(format!("#{}+{} {:?}: reference fails ({}) but real VM succeeds", mi, off, ins, why));
                break;
            }
            (Status::Failed(_), Some(e)) => {
                res.real_ok = false;
                res.real_err = e.clone();
                if out != m.out {
                    res.divergence = Some(format!("#{}+{} {:?}: both fail, but output differs: real {:?} vs reference {:?}", mi, off, ins, tail(&out), tail(&m.out)));
                }
                break;
            }
            (_, Some(e)) => {
                res.real_ok = false;
                res.real_err = e.clone();
                res.divergence = Some(format!("#{}+{} {:?}: real VM fails ({}) but reference succeeds", mi, off, ins, e));
                break;
            }
            _ => {}
        }
        // --- compare state after the instruction
        if out.len() != m.out.len() || out.as_bytes()[out_seen.min(out.len())..] != m.out.as_bytes()[out_seen.min(out.len())..] {
            res.divergence = Some(format!("#{}+{} {:?}: output differs: real {:?} vs reference {:?}", mi, off, ins, tail(&out), tail(&m.out)));
            break;
        }
        out_seen = out.len();
        let rs = stack_of(&state);
        if rs.len() != m.stack.len() {
            res.divergence = Some(format!("#{}+{} {:?}: operand stack depth real {} vs reference {}", mi, off, ins, rs.len(), m.stack.len()));
            break;
        }
        if rs.len() > res.max_stack {
            res.max_stack = rs.len();
        }
        let mut bad = None;
        for (i, (rp, sv)) in rs.iter().zip(m.stack.iter()).enumerate() {
            if !bij.same(rp, sv) {
                bad = Some(format!("#{}+{} {:?}: operand stack slot {} real {:?} vs reference {:?}", mi, off, ins, i, rp, sv));
                break;
            }
        }
        if bad.is_some() {
            res.divergence = bad;
            break;
        }
        // top frame (if the reference still has one)
        if let Some(sf) = m.frames.last() {
            match state.frame_stack.get_locals() {
                Ok(rf) => {
                    for (i, sv) in sf.locals.iter().enumerate() {
                        match rf.get(&LocalFrameIndex::new(i as u16)) {
                            Ok(rp) => {
                                if !bij.same(rp, sv) {
                                    bad = Some(format!("#{}+{} {:?}: local {} real {:?} vs reference {:?}", mi, off, ins, i, rp, sv));
                                    break;
                                }
                            }
                            Err(_) => {
                                bad = Some(format!("#{}+{} {:?}: real frame has no local {} (reference frame has {})", mi, off, ins, i, sf.locals.len()));
                                break;
                            }
                        }
                    }
                    if bad.is_none() && sf.locals.len() < 65535 && rf.get(&LocalFrameIndex::new(sf.locals.len() as u16)).is_ok() {
                        bad = Some(format!("#{}+{} {:?}: real frame is larger than the reference frame ({})", mi, off, ins, sf.locals.len()));
                    }
                    if bad.is_none() {
                        let rr = rf.return_address.map(|a| a.value_usize());
                        let ok = match (&sf.ret, rr) {
                            (Ret::Halt, None) | (Ret::End, None) => true,
                            (Ret::At(a, b), Some(x)) => locate(&layout, x) == Some((*a, *b)),
                            (Ret::FallOff(_), Some(_)) => true,
                            _ => false,
                        };
                        if !ok {
                            bad = Some(format!("#{}+{} {:?}: return point real {:?} vs reference {:?}", mi, off, ins, rr, sf.ret));
                        }
                    }
                }
                Err(_) => bad = Some(format!("#{}+{} {:?}: real VM has no frame, reference has {}", mi, off, ins, m.frames.len())),
            }
        } else if state.frame_stack.get_locals().is_ok() {
            // reference popped its last frame (return from entry); real must have too
            bad = Some(format!("#{}+{} {:?}: real VM still has a frame after the entry frame returned", mi, off, ins));
        }
        if bad.is_some() {
            res.divergence = bad;
            break;
        }
        // globals and heap: touched parts now, full sweep periodically
        let sweep = res.steps >= next_sweep;
        if sweep {
            next_sweep = res.steps + 128u64.max((m.heap.len() as u64 + m.heap_cells) / 2);
        }
        match ins {
            Ins::SetGlobal(_) => {
                bad = compare_globals(&mut bij, &state, &m);
            }
            Ins::SetSlot(_) | Ins::Object(_) | Ins::Array | Ins::CallSlot(..) => {
                // the object just created / possibly mutated is the one on top of stack or
                // among recent ones; compare the newest and every object referenced from the
                // operand stack top
                if !m.heap.is_empty() {
                    let newest = m.heap.len() - 1;
                    bad = compare_object(&mut bij, &state, &m, newest);
                }
                if bad.is_none() {
                    if let Some(t) = m.touched {
                        bad = match (&m.heap[t], m.touched_cell) {
                            (HObj::Array(es), Some(c)) if es.len() > 256 => compare_cells(&mut bij, &state, &m, t, c.saturating_sub(1), c + 2),
                            _ => compare_object(&mut bij, &state, &m, t),
                        };
                    }
                }
            }
            _ => {}
        }
        if bad.is_none() && sweep {
            bad = compare_globals(&mut bij, &state, &m);
            if bad.is_none() {
                for i in 0..m.heap.len() {
                    bad = compare_object(&mut bij, &state, &m, i);
                    if bad.is_some() {
                        break;
                    }
                }
            }
        }
        if let Some(b) = bad {
            res.divergence = Some(format!("after #{}+{} {:?}: {}", mi, off, ins, b));
            break;
        }
    }
    // final sweep
    // (after a failure the state is no longer observable: FML may leave a half-done update)
    if res.divergence.is_none() && matches!(m.status, Status::Halted) && out != m.out {
        res.divergence = Some(format!("output differs at the end: real {:?} vs reference {:?}", tail(&out), tail(&m.out)));
    }
    if res.divergence.is_none() && matches!(m.status, Status::Halted) {
        let mut bad = compare_globals(&mut bij, &state, &m);
        if bad.is_none() {
            for i in 0..m.heap.len() {
                bad = compare_object(&mut bij, &state, &m, i);
                if bad.is_some() {
                    break;
                }
            }
        }
        if bad.is_none() {
            // same number of heap objects
            let n = m.heap.len();
            if state.heap.dereference(&HeapIndex::from(n)).is_ok() {
                bad = Some(format!("real heap holds more than the reference's {} objects", n));
            }
        }
        if let Some(b) = bad {
            res.divergence = Some(format!("final sweep: {}", b));
        }
    }
    res.ref_status = m.status.clone();
    res.out = out;
    res.opcode_hist = m.opcode_hist;
    res.dispatch_hist = std::mem::take(&mut m.dispatch_hist);
    res.heap_objects = m.heap.len();
    res
}

fn tail(s: &str) -> String {
    let n = s.len();
    if n <= 160 {
        s.to_owned()
    } else {
        let mut st = n - 160;
        while !s.is_char_boundary(st) {
            st += 1;
        }
        format!("…{}", &s[st..])
    }
}
