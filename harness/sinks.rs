//! Fault-injecting byte sinks that honour the `std::io::Write` contract and log
//! every `write` call (property C08).

use std::cell::RefCell;
use std::io::{Error, ErrorKind, Write};
use std::rc::Rc;

#[derive(Clone, Debug, PartialEq)]
pub enum Fault {
    None,
    /// accept at most k bytes per call
    Limit(usize),
    /// accept only part of the request at call number i (0-based)
    ShortAt(usize),
    /// return ErrorKind::Interrupted once at call i, then behave normally
    InterruptAt(usize),
    /// return Ok(0) at call i
    ZeroAt(usize),
    /// return a hard error at call i
    ErrAt(usize),
    /// accept exactly 1 byte at call i and i+1 (two consecutive short writes)
    OneByteAt(usize),
}

#[derive(Debug)]
pub struct Inner {
    pub data: Vec<u8>,
    /// (requested, accepted) with accepted = -1 for Interrupted, -2 for hard error
    pub calls: Vec<(usize, i64)>,
    pub fault: Fault,
    pub flushes: usize,
}

#[derive(Clone)]
pub struct Sink(pub Rc<RefCell<Inner>>);

impl Sink {
    pub fn new(fault: Fault) -> Sink {
        Sink(Rc::new(RefCell::new(Inner { data: Vec::new(), calls: Vec::new(), fault, flushes: 0 })))
    }
    pub fn data(&self) -> Vec<u8> {
        self.0.borrow().data.clone()
    }
    pub fn n_calls(&self) -> usize {
        self.0.borrow().calls.len()
    }
    pub fn short_writes(&self) -> usize {
        self.0.borrow().calls.iter().filter(|(r, a)| *a >= 0 && (*a as usize) < *r).count()
    }
}

impl Write for Sink {
    fn write(&mut self, buf: &[u8]) -> std::io::Result<usize> {
        let mut s = self.0.borrow_mut();
        let i = s.calls.len();
        let req = buf.len();
        let fault = s.fault.clone();
        let accept: Result<usize, Error> = match fault {
            Fault::None => Ok(req),
            Fault::Limit(k) => Ok(req.min(k)),
            Fault::ShortAt(at) if at == i && req > 1 => Ok(req / 2),
            Fault::OneByteAt(at) if (at == i || at + 1 == i) && req > 1 => Ok(1),
            Fault::InterruptAt(at) if at == i => Err(Error::new(ErrorKind::Interrupted, "injected EINTR")),
            Fault::ZeroAt(at) if at == i && req > 0 => Ok(0),
            Fault::ErrAt(at) if at == i => Err(Error::new(ErrorKind::Other, "injected hard error")),
            _ => Ok(req),
        };
        match accept {
            Ok(n) => {
                s.data.extend_from_slice(&buf[..n]);
                s.calls.push((req, n as i64));
                Ok(n)
            }
            Err(e) => {
                let code = if e.kind() == ErrorKind::Interrupted { -1 } else { -2 };
                s.calls.push((req, code));
                Err(e)
            }
        }
    }
    fn flush(&mut self) -> std::io::Result<()> {
        self.0.borrow_mut().flushes += 1;
        Ok(())
    }
}
