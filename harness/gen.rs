//! Program generators. The *well-behaved generator* builds type-directed
//! FML programs (as ASTs) that exercise every construct of the README while
//! staying inside the judged fragment: definitions dominate uses, no
//! same-scope redefinition, terminating loops / recursion. The reference
//! semantics — not the generator — decides what each program must print, so
//! a generator slip only makes a program fail earlier; it cannot cause a
//! false alarm.

use crate::parser::{Identifier, AST};

use super::rng::Rng;

#[derive(Clone, Debug, PartialEq)]
pub enum Ty {
    Int,
    Bool,
    Null,
    Arr(Box<Ty>, usize),
    Obj(usize),
}

#[derive(Clone, Debug)]
struct Var {
    name: String,
    ty: Ty,
}

#[derive(Clone, Debug)]
struct Sig {
    name: String,
    params: Vec<Ty>,
    ret: Ty,
}

#[derive(Clone, Debug)]
struct Class {
    fields: Vec<(String, Ty)>,
    methods: Vec<Sig>,
    /// type of the parent value; None = null parent
    parent: Option<Ty>,
}

#[derive(Clone, Debug)]
pub struct GenOpts {
    pub budget: i32,
    pub max_depth: u32,
    pub max_funcs: usize,
    pub objects: bool,
    pub arrays: bool,
    pub wild_ints: bool,
    pub loops: bool,
}

impl Default for GenOpts {
    fn default() -> Self {
        GenOpts { budget: 90, max_depth: 4, max_funcs: 3, objects: true, arrays: true, wild_ints: false, loops: true }
    }
}

pub struct Gen<'r> {
    rng: &'r mut Rng,
    o: GenOpts,
    budget: i32,
    funcs: Vec<Sig>,
    classes: Vec<Class>,
    /// scopes of the frame being generated, innermost last
    scopes: Vec<Vec<Var>>,
    /// globals visible from function and method bodies
    prelude: Vec<Var>,
    /// true while generating a function / method body (globals = prelude)
    in_callee: bool,
    uniq: usize,
    marker: usize,
    no_decl: u32,
    /// (name, params, ret) of the recursive function being generated
    self_rec: Option<Sig>,
    /// methods of `this` callable from the current method body (lower index only)
    loop_depth: u32,
}

fn id(s: &str) -> Identifier {
    Identifier::from(s)
}
fn var(s: &str) -> AST {
    AST::access_variable(id(s))
}
fn op(o: &str, l: AST, r: AST) -> AST {
    AST::call_method(l, id(o), vec![r])
}

const FIELD_NAMES: [&str; 10] = ["x", "y", "val", "next", "a", "ab", "abc", "B", "_p", "z9"];
const OPS_INT_INT: [&str; 3] = ["+", "-", "*"];
const OPS_CMP: [&str; 6] = ["<", ">", "<=", ">=", "==", "!="];

impl<'r> Gen<'r> {
    pub fn new(rng: &'r mut Rng, o: GenOpts) -> Gen<'r> {
        let budget = o.budget;
        Gen {
            rng,
            o,
            budget,
            funcs: Vec::new(),
            classes: Vec::new(),
            scopes: vec![Vec::new()],
            prelude: Vec::new(),
            in_callee: false,
            uniq: 0,
            marker: 0,
            no_decl: 0,
            self_rec: None,
            loop_depth: 0,
        }
    }

    fn fresh(&mut self, p: &str) -> String {
        self.uniq += 1;
        format!("{}{}", p, self.uniq)
    }

    fn spend(&mut self, n: i32) {
        self.budget -= n;
    }

    fn leafy(&self, depth: u32) -> bool {
        depth == 0 || self.budget <= 0
    }

    // ---- variables -----------------------------------------------------------------------

    fn visible(&self) -> Vec<Var> {
        let mut seen: Vec<String> = Vec::new();
        let mut out = Vec::new();
        for s in self.scopes.iter().rev() {
            for v in s.iter().rev() {
                if !seen.contains(&v.name) {
                    seen.push(v.name.clone());
                    out.push(v.clone());
                }
            }
        }
        if self.in_callee {
            for v in self.prelude.iter().rev() {
                if !seen.contains(&v.name) {
                    seen.push(v.name.clone());
                    out.push(v.clone());
                }
            }
        }
        out
    }

    fn vars_of(&self, pred: &dyn Fn(&Ty) -> bool) -> Vec<Var> {
        self.visible().into_iter().filter(|v| pred(&v.ty)).collect()
    }

    fn declared_here(&self, name: &str) -> bool {
        self.scopes.last().unwrap().iter().any(|v| v.name == name)
    }

    /// Pick a name for a new variable in the current scope: fresh, or (sometimes)
    /// shadowing a name visible from an outer scope.
    fn new_var_name(&mut self) -> String {
        if self.rng.chance(1, 5) {
            let vis = self.visible();
            let cands: Vec<&Var> =
                vis.iter().filter(|v| !self.declared_here(&v.name) && v.name != "this" && v.name != "n" && !v.name.starts_with("i_")).collect();
            if !cands.is_empty() {
                return cands[self.rng.below(cands.len())].name.clone();
            }
        }
        // mostly short names, sometimes long ones (identifier length must never matter)
        match self.rng.below(12) {
            0 => self.fresh("a_rather_long_variable_name_"),
            1 => self.fresh("Counter_With_Mixed_Case_And_Digits_0123456789_"),
            2 => self.fresh("_"),
            _ => self.fresh("v"),
        }
    }

    fn declare(&mut self, name: &str, ty: Ty) {
        self.scopes.last_mut().unwrap().push(Var { name: name.to_owned(), ty });
    }

    // ---- literals ------------------------------------------------------------------------

    fn int_lit(&mut self) -> AST {
        let v = if self.o.wild_ints && self.rng.chance(1, 3) { self.rng.i32_interesting() } else { self.rng.range(-9, 20) as i32 };
        AST::Integer(v)
    }

    fn default_value(&mut self, ty: &Ty, depth: u32) -> AST {
        match ty {
            Ty::Int => self.int_lit(),
            Ty::Bool => AST::Boolean(self.rng.coin()),
            Ty::Null => AST::Null,
            Ty::Arr(t, n) => {
                let init = self.default_value(t, depth);
                AST::array(AST::Integer(*n as i32), init)
            }
            Ty::Obj(_) => AST::Null, // callers never ask for this
        }
    }

    // ---- types ---------------------------------------------------------------------------

    fn random_scalar(&mut self) -> Ty {
        match self.rng.below(6) {
            0 | 1 | 2 => Ty::Int,
            3 | 4 => Ty::Bool,
            _ => Ty::Null,
        }
    }

    fn random_type(&mut self) -> Ty {
        let r = self.rng.below(10);
        if r < 6 {
            self.random_scalar()
        } else if r < 8 && self.o.arrays {
            let t = self.random_scalar();
            let inner = Ty::Arr(Box::new(t), self.rng.below(5));
            if self.rng.chance(1, 5) {
                // an array of arrays (rows must be distinct objects unless built from one variable)
                Ty::Arr(Box::new(Ty::Arr(Box::new(self.random_scalar()), 1 + self.rng.below(3))), 1 + self.rng.below(3))
            } else {
                inner
            }
        } else {
            // a type for which a value is visible, if any
            let vis = self.visible();
            if vis.is_empty() {
                Ty::Int
            } else {
                vis[self.rng.below(vis.len())].ty.clone()
            }
        }
    }

    /// Find a method signature for `name`-less lookup: all methods reachable on type `ty`.
    fn methods_of(&self, ty: &Ty) -> Vec<Sig> {
        let mut out: Vec<Sig> = Vec::new();
        let mut cur = ty.clone();
        loop {
            match cur {
                Ty::Obj(c) => {
                    for m in &self.classes[c].methods {
                        if !out.iter().any(|x| x.name == m.name) {
                            out.push(m.clone());
                        }
                    }
                    match &self.classes[c].parent {
                        Some(p) => cur = p.clone(),
                        None => break,
                    }
                }
                Ty::Int => {
                    for o in OPS_INT_INT.iter() {
                        if !out.iter().any(|x| x.name == *o) {
                            out.push(Sig { name: o.to_string(), params: vec![Ty::Int], ret: Ty::Int });
                        }
                    }
                    for o in OPS_CMP.iter() {
                        if !out.iter().any(|x| x.name == *o) {
                            out.push(Sig { name: o.to_string(), params: vec![Ty::Int], ret: Ty::Bool });
                        }
                    }
                    break;
                }
                Ty::Bool => {
                    for o in ["&", "|", "==", "!="].iter() {
                        if !out.iter().any(|x| x.name == *o) {
                            out.push(Sig { name: o.to_string(), params: vec![Ty::Bool], ret: Ty::Bool });
                        }
                    }
                    break;
                }
                Ty::Arr(t, n) => {
                    if n > 0 {
                        if !out.iter().any(|x| x.name == "get") {
                            out.push(Sig { name: "get".into(), params: vec![Ty::Int], ret: (*t).clone() });
                        }
                        if !out.iter().any(|x| x.name == "set") {
                            out.push(Sig { name: "set".into(), params: vec![Ty::Int, (*t).clone()], ret: (*t).clone() });
                        }
                    }
                    break;
                }
                Ty::Null => break,
            }
        }
        out
    }

    // ---- expressions ---------------------------------------------------------------------

    pub fn expr(&mut self, ty: &Ty, depth: u32) -> AST {
        self.spend(1);
        if self.leafy(depth) {
            return self.leaf(ty, depth);
        }
        let d = depth - 1;
        // generic forms valid for every type
        let generic = self.rng.below(100);
        if generic < 8 {
            // conditional expression
            let c = self.expr(&Ty::Bool, d);
            self.no_decl += 1;
            let t = self.expr(ty, d);
            let e = self.expr(ty, d);
            self.no_decl -= 1;
            return AST::conditional(c, t, e);
        }
        if generic < 16 {
            return self.block_expr(ty, d);
        }
        if generic < 20 && self.no_decl == 0 {
            // let as an expression
            let v = self.expr(ty, d);
            let name = self.new_var_name();
            self.declare(&name, ty.clone());
            return AST::variable(id(&name), v);
        }
        if generic < 26 {
            // assignment as an expression
            let t2 = ty.clone();
            let cands = self.vars_of(&|t| *t == t2);
            let cands: Vec<Var> = cands.into_iter().filter(|v| v.name != "this" && v.name != "n" && !v.name.starts_with("i_")).collect();
            if !cands.is_empty() {
                let v = cands[self.rng.below(cands.len())].clone();
                let e = self.expr(ty, d);
                return AST::assign_variable(id(&v.name), e);
            }
        }
        if generic < 36 {
            if let Some(e) = self.call_returning(ty, d) {
                return e;
            }
        }
        if generic < 46 {
            if let Some(e) = self.method_call_returning(ty, d) {
                return e;
            }
        }
        if generic < 54 {
            if let Some(e) = self.element_or_field(ty, d) {
                return e;
            }
        }
        match ty {
            Ty::Int => {
                let r = self.rng.below(10);
                if r < 6 {
                    let o = *self.rng.pick(&OPS_INT_INT);
                    let l = self.expr(&Ty::Int, d);
                    let r = self.expr(&Ty::Int, d);
                    op(o, l, r)
                } else if r < 8 {
                    let o = if self.rng.coin() { "/" } else { "%" };
                    let l = self.expr(&Ty::Int, d);
                    let mut dv = self.rng.range(2, 9) as i32;
                    if self.rng.coin() {
                        dv = -dv;
                    }
                    op(o, l, AST::Integer(dv))
                } else {
                    self.leaf(ty, depth)
                }
            }
            Ty::Bool => {
                let r = self.rng.below(10);
                if r < 4 {
                    let o = *self.rng.pick(&OPS_CMP);
                    let l = self.expr(&Ty::Int, d);
                    let r = self.expr(&Ty::Int, d);
                    op(o, l, r)
                } else if r < 6 {
                    let o = if self.rng.coin() { "&" } else { "|" };
                    let l = self.expr(&Ty::Bool, d);
                    let r = self.expr(&Ty::Bool, d);
                    op(o, l, r)
                } else if r < 8 {
                    // equality across kinds: receiver must be a primitive
                    let lt = self.random_scalar();
                    let rt = self.random_type();
                    let l = self.expr(&lt, d);
                    let r = self.expr(&rt, d);
                    op(if self.rng.coin() { "==" } else { "!=" }, l, r)
                } else {
                    self.leaf(ty, depth)
                }
            }
            Ty::Null => {
                let r = self.rng.below(10);
                if r < 5 {
                    self.print_marker(d)
                } else if r < 7 && self.o.loops && self.loop_depth < 2 {
                    // a loop whose condition is false from the start, or a counted loop over an
                    // existing counter cannot be built here without a statement list: use a
                    // block
                    self.scopes.push(Vec::new());
                    let stmts = self.counted_loop(d);
                    self.scopes.pop();
                    AST::block(stmts)
                } else {
                    AST::Null
                }
            }
            Ty::Arr(t, n) => self.new_array(t, *n, d),
            Ty::Obj(_) => self.leaf(ty, depth),
        }
    }

    /// An expression of any type; returns the type chosen.
    pub fn expr_any(&mut self, depth: u32) -> (AST, Ty) {
        if self.o.objects && depth > 0 && self.budget > 10 && self.rng.chance(1, 6) {
            return self.new_object(depth - 1);
        }
        let ty = self.random_type();
        (self.expr(&ty, depth), ty)
    }

    fn leaf(&mut self, ty: &Ty, depth: u32) -> AST {
        let t2 = ty.clone();
        let cands = self.vars_of(&|t| *t == t2);
        if !cands.is_empty() && self.rng.chance(2, 3) {
            return var(&cands[self.rng.below(cands.len())].name);
        }
        match ty {
            Ty::Obj(_) => {
                if !cands.is_empty() {
                    var(&cands[self.rng.below(cands.len())].name)
                } else {
                    // no value of this class is visible: the caller checked availability,
                    // but be safe
                    AST::Null
                }
            }
            _ => self.default_value(ty, depth),
        }
    }

    fn block_expr(&mut self, ty: &Ty, depth: u32) -> AST {
        self.scopes.push(Vec::new());
        let saved = self.no_decl;
        self.no_decl = 0;
        let mut stmts = Vec::new();
        let n = self.rng.below(3);
        for _ in 0..n {
            stmts.extend(self.stmt(depth));
        }
        stmts.push(self.expr(ty, depth));
        self.no_decl = saved;
        self.scopes.pop();
        AST::block(stmts)
    }

    fn args_for(&mut self, params: &[Ty], depth: u32) -> Option<Vec<AST>> {
        let mut out = Vec::new();
        for p in params {
            if let Ty::Obj(_) = p {
                let p2 = p.clone();
                if self.vars_of(&|t| *t == p2).is_empty() {
                    return None;
                }
            }
            out.push(self.expr(p, depth));
        }
        Some(out)
    }

    fn call_returning(&mut self, ty: &Ty, depth: u32) -> Option<AST> {
        let cands: Vec<Sig> = self.funcs.iter().filter(|f| f.ret == *ty).cloned().collect();
        if let Some(me) = self.self_rec.clone() {
            if me.ret == *ty && self.rng.chance(1, 2) {
                // decreasing self-recursion: first parameter is the counter `n`
                let mut args = vec![op("-", var("n"), AST::Integer(1))];
                match self.args_for(&me.params[1..], depth) {
                    Some(rest) => args.extend(rest),
                    None => return None,
                }
                return Some(AST::call_function(id(&me.name), args));
            }
        }
        if cands.is_empty() {
            return None;
        }
        let f = cands[self.rng.below(cands.len())].clone();
        let args = self.args_for(&f.params, depth)?;
        Some(AST::call_function(id(&f.name), args))
    }

    fn method_call_returning(&mut self, ty: &Ty, depth: u32) -> Option<AST> {
        let vis = self.visible();
        let mut cands: Vec<(Var, Sig)> = Vec::new();
        for v in vis {
            if let Ty::Obj(_) = v.ty {
                for m in self.methods_of(&v.ty) {
                    if m.ret == *ty {
                        cands.push((v.clone(), m));
                    }
                }
            }
        }
        if cands.is_empty() {
            return None;
        }
        let (v, m) = cands[self.rng.below(cands.len())].clone();
        if v.name == "this" && !self.rng.chance(1, 3) {
            // calls through `this` risk unbounded recursion; keep them rare and only to
            // built-in methods inherited from a primitive
            if !(super::printer::op_level(&m.name).is_some() || m.name == "get" || m.name == "set") {
                return None;
            }
        }
        let mut args = Vec::new();
        for (i, p) in m.params.iter().enumerate() {
            if (m.name == "get" || m.name == "set") && i == 0 {
                // index into an array at the end of the chain: stay in range when known
                let len = self.array_len_at_end(&v.ty);
                match len {
                    Some(n) if n > 0 => args.push(AST::Integer(self.rng.below(n) as i32)),
                    _ => args.push(self.expr(p, depth)),
                }
            } else {
                args.push(self.args_for(std::slice::from_ref(p), depth)?.remove(0));
            }
        }
        let recv = var(&v.name);
        if m.name == "get" && args.len() == 1 && self.rng.coin() {
            return Some(AST::access_array(recv, args.remove(0)));
        }
        if m.name == "set" && args.len() == 2 && self.rng.coin() {
            let val = args.remove(1);
            return Some(AST::assign_array(recv, args.remove(0), val));
        }
        Some(AST::call_method(recv, id(&m.name), args))
    }

    fn array_len_at_end(&self, ty: &Ty) -> Option<usize> {
        let mut cur = ty.clone();
        loop {
            match cur {
                Ty::Arr(_, n) => return Some(n),
                Ty::Obj(c) => {
                    if self.classes[c].methods.iter().any(|m| m.name == "get" || m.name == "set") {
                        return None;
                    }
                    match &self.classes[c].parent {
                        Some(p) => cur = p.clone(),
                        None => return None,
                    }
                }
                _ => return None,
            }
        }
    }

    fn element_or_field(&mut self, ty: &Ty, depth: u32) -> Option<AST> {
        let vis = self.visible();
        let mut cands: Vec<AST> = Vec::new();
        for v in &vis {
            match &v.ty {
                Ty::Arr(t, n) if *n > 0 && matches!(&**t, Ty::Arr(t2, n2) if **t2 == *ty && *n2 > 0) => {
                    if let Ty::Arr(_, n2) = &**t {
                        let i = AST::Integer(self.rng.below(*n) as i32);
                        let j = AST::Integer(self.rng.below(*n2) as i32);
                        let row = AST::access_array(var(&v.name), i);
                        if self.rng.chance(1, 2) {
                            let val = self.expr(ty, depth);
                            cands.push(AST::assign_array(row, j, val));
                        } else {
                            cands.push(AST::access_array(row, j));
                        }
                    }
                }
                Ty::Arr(t, n) if **t == *ty && *n > 0 => {
                    let i = AST::Integer(self.rng.below(*n) as i32);
                    if self.rng.chance(1, 3) {
                        let val = self.expr(ty, depth);
                        cands.push(AST::assign_array(var(&v.name), i, val));
                    } else {
                        cands.push(AST::access_array(var(&v.name), i));
                    }
                }
                Ty::Obj(c) => {
                    let fields = self.classes[*c].fields.clone();
                    for (f, ft) in fields {
                        if ft == *ty {
                            if self.rng.chance(1, 3) {
                                let val = self.expr(ty, depth);
                                cands.push(AST::assign_field(var(&v.name), id(&f), val));
                            } else {
                                cands.push(AST::access_field(var(&v.name), id(&f)));
                            }
                        }
                    }
                }
                _ => {}
            }
            if cands.len() > 6 {
                break;
            }
        }
        if cands.is_empty() {
            None
        } else {
            let k = self.rng.below(cands.len());
            Some(cands.swap_remove(k))
        }
    }

    fn new_array(&mut self, elem: &Ty, n: usize, depth: u32) -> AST {
        let size = if self.rng.chance(1, 4) && n > 0 {
            // size computed by an expression
            op("+", AST::Integer(n as i32 - 1), AST::Integer(1))
        } else if self.rng.chance(1, 6) && self.no_decl == 0 {
            // README: a `let` in the size expression stays visible afterwards
            let name = self.fresh("sz");
            self.declare(&name, Ty::Int);
            AST::variable(id(&name), AST::Integer(n as i32))
        } else {
            AST::Integer(n as i32)
        };
        if self.rng.chance(1, 2) {
            // simple initializer: literal or variable
            let init = self.leaf(elem, 0);
            if super::refsem::is_simple_init(&init) {
                return AST::array(size, init);
            }
        }
        // compound initializer: evaluated once per element inside a hidden scope
        self.scopes.push(Vec::new());
        let saved = self.no_decl;
        self.no_decl = 0;
        let init = if self.rng.coin() {
            self.block_expr(elem, depth.min(2))
        } else {
            let e = self.expr(elem, depth.min(2));
            if super::refsem::is_simple_init(&e) {
                AST::block(vec![e])
            } else {
                e
            }
        };
        self.no_decl = saved;
        self.scopes.pop();
        AST::array(size, init)
    }

    /// A fresh object literal; registers its class. Returns (expr, Obj type).
    pub fn new_object(&mut self, depth: u32) -> (AST, Ty) {
        self.spend(3);
        // parent
        let (parent_ast, parent_ty): (AST, Option<Ty>) = match self.rng.below(10) {
            0 | 1 | 2 | 3 => (AST::Null, None),
            4 => {
                let e = self.expr(&Ty::Int, depth.min(1));
                (e, Some(Ty::Int))
            }
            5 => {
                let e = self.expr(&Ty::Bool, depth.min(1));
                (e, Some(Ty::Bool))
            }
            6 if self.o.arrays => {
                let t = self.random_scalar();
                let n = 1 + self.rng.below(3);
                let e = self.new_array(&t, n, depth.min(1));
                (e, Some(Ty::Arr(Box::new(t), n)))
            }
            _ => {
                // another object: an existing variable or a nested literal
                let objs = self.vars_of(&|t| matches!(t, Ty::Obj(_)));
                let objs: Vec<Var> = objs.into_iter().filter(|v| v.name != "this").collect();
                if !objs.is_empty() && self.rng.coin() {
                    let v = objs[self.rng.below(objs.len())].clone();
                    (var(&v.name), Some(v.ty))
                } else if depth > 0 && self.budget > 10 {
                    let (e, t) = self.new_object(depth - 1);
                    (e, Some(t))
                } else {
                    (AST::Null, None)
                }
            }
        };
        // fields
        let nf = self.rng.below(4);
        let mut fields: Vec<(String, Ty)> = Vec::new();
        let mut members: Vec<AST> = Vec::new();
        for _ in 0..nf {
            let name = FIELD_NAMES[self.rng.below(FIELD_NAMES.len())].to_string();
            if fields.iter().any(|f| f.0 == name) {
                continue;
            }
            let ty = if self.rng.chance(1, 5) { self.random_type() } else { self.random_scalar() };
            let ok = match &ty {
                Ty::Obj(_) => {
                    let t2 = ty.clone();
                    !self.vars_of(&|t| *t == t2).is_empty()
                }
                _ => true,
            };
            if !ok {
                continue;
            }
            let init = self.expr(&ty, depth.min(2));
            fields.push((name.clone(), ty));
            members.push(AST::variable(id(&name), init));
        }
        // class is registered before its methods are generated so that `this` has a type;
        // methods are added one by one so that a body can only call earlier ones.
        let cidx = self.classes.len();
        self.classes.push(Class { fields: fields.clone(), methods: Vec::new(), parent: parent_ty });
        let nm = self.rng.below(4);
        let mut method_members: Vec<AST> = Vec::new();
        for _ in 0..nm {
            let r = self.rng.below(10);
            let (name, params): (String, Vec<Ty>) = if r < 3 {
                let o = super::printer::OPERATORS[self.rng.below(13)].to_string();
                let pt = self.random_scalar();
                (o, vec![pt])
            } else if r == 3 {
                ("get".into(), vec![Ty::Int])
            } else if r == 4 {
                let t = self.random_scalar();
                ("set".into(), vec![Ty::Int, t])
            } else {
                let k = self.rng.below(3);
                let mut ps = Vec::new();
                for _ in 0..k {
                    ps.push(self.random_scalar());
                }
                let n = if self.rng.chance(1, 8) { "print".to_string() } else { format!("m{}", self.rng.below(4)) };
                (n, ps)
            };
            if self.classes[cidx].methods.iter().any(|m| m.name == name) {
                continue;
            }
            let ret = self.random_scalar();
            let body = self.callee_body(&params, &ret, Some(Ty::Obj(cidx)), None, depth.min(2));
            let pnames: Vec<Identifier> = (0..params.len()).map(|i| id(&format!("p{}", i))).collect();
            self.classes[cidx].methods.push(Sig { name: name.clone(), params, ret });
            method_members.push(AST::function(id(&name), pnames, body));
        }
        // interleave fields and methods, keeping relative order within each group
        let mut all = Vec::new();
        let mut fi = members.into_iter().peekable();
        let mut mi = method_members.into_iter().peekable();
        while fi.peek().is_some() || mi.peek().is_some() {
            let take_field = match (fi.peek().is_some(), mi.peek().is_some()) {
                (true, true) => self.rng.coin(),
                (true, false) => true,
                _ => false,
            };
            if take_field {
                all.push(fi.next().unwrap());
            } else {
                all.push(mi.next().unwrap());
            }
        }
        (AST::object(parent_ast, all), Ty::Obj(cidx))
    }

    /// Body of a function or method, generated in a fresh frame.
    fn callee_body(&mut self, params: &[Ty], ret: &Ty, this: Option<Ty>, rec: Option<Sig>, depth: u32) -> AST {
        let saved_scopes = std::mem::replace(&mut self.scopes, vec![Vec::new()]);
        let saved_callee = self.in_callee;
        let saved_nodecl = self.no_decl;
        let saved_rec = self.self_rec.take();
        let saved_loop = self.loop_depth;
        self.in_callee = true;
        self.no_decl = 0;
        self.loop_depth = 0;
        if let Some(t) = this {
            self.declare("this", t);
        }
        let is_rec = rec.is_some();
        for (i, p) in params.iter().enumerate() {
            let name = if is_rec && i == 0 { "n".to_string() } else { format!("p{}", i) };
            self.declare(&name, p.clone());
        }
        let body = if let Some(me) = rec {
            // if n <= 0 then base else step
            let base = self.expr(ret, 1);
            self.self_rec = Some(me);
            self.no_decl += 1;
            let step = self.expr(ret, depth.max(1));
            self.no_decl -= 1;
            self.self_rec = None;
            AST::conditional(op("<=", var("n"), AST::Integer(0)), base, step)
        } else if self.rng.chance(2, 3) {
            self.block_expr(ret, depth)
        } else {
            self.expr(ret, depth)
        };
        self.scopes = saved_scopes;
        self.in_callee = saved_callee;
        self.no_decl = saved_nodecl;
        self.self_rec = saved_rec;
        self.loop_depth = saved_loop;
        body
    }

    // ---- statements ----------------------------------------------------------------------

    fn print_marker(&mut self, depth: u32) -> AST {
        self.marker += 1;
        let k = self.rng.below(4);
        let mut fmt = format!("#{}", self.marker);
        let mut args = Vec::new();
        for _ in 0..k {
            fmt.push_str(match self.rng.below(6) {
                0 => " ~",
                1 => "\\t~",
                2 => ",~",
                3 => " \\\"~\\\"",
                4 => " ž~",
                _ => ":~",
            });
            let (e, _) = self.expr_any(depth.min(2));
            args.push(e);
        }
        fmt.push_str(match self.rng.below(5) {
            0 => ";",
            1 => " \\~\\\\\\n",
            _ => "\\n",
        });
        AST::print(fmt, args)
    }

    /// `let i = 0; while i < K do begin ...; i <- i + 1 end`
    fn counted_loop(&mut self, depth: u32) -> Vec<AST> {
        let i = self.fresh("i_");
        let k = self.rng.below(4) as i32;
        let mut out = vec![AST::variable(id(&i), AST::Integer(0))];
        self.declare(&i, Ty::Int);
        self.loop_depth += 1;
        self.scopes.push(Vec::new());
        let saved = self.no_decl;
        self.no_decl = 0;
        let mut body = Vec::new();
        let n = 1 + self.rng.below(2);
        for _ in 0..n {
            body.extend(self.stmt(depth));
        }
        body.push(AST::assign_variable(id(&i), op("+", var(&i), AST::Integer(1))));
        self.no_decl = saved;
        self.scopes.pop();
        self.loop_depth -= 1;
        out.push(AST::loop_de_loop(op("<", var(&i), AST::Integer(k)), AST::block(body)));
        out
    }

    /// One statement (value discarded); may expand to several statements.
    pub fn stmt(&mut self, depth: u32) -> Vec<AST> {
        self.spend(1);
        let d = depth.saturating_sub(1);
        let r = self.rng.below(100);
        if r < 22 && self.no_decl == 0 {
            let (e, ty) = self.expr_any(depth);
            let name = self.new_var_name();
            self.declare(&name, ty);
            return vec![AST::variable(id(&name), e)];
        }
        if r < 42 {
            return vec![self.print_marker(depth)];
        }
        if r < 52 && depth > 0 {
            // if statement with block or plain branches
            let c = self.expr(&Ty::Bool, d);
            let t = self.branch(d);
            let e = if self.rng.coin() { self.branch(d) } else { AST::Null };
            return vec![AST::conditional(c, t, e)];
        }
        if r < 60 && depth > 0 && self.o.loops && self.loop_depth < 2 && self.no_decl == 0 {
            return self.counted_loop(d);
        }
        if r < 66 && depth > 0 {
            // nested block statement
            let (_, ty) = (0, self.random_type());
            let ok = match &ty {
                Ty::Obj(_) => {
                    let t2 = ty.clone();
                    !self.vars_of(&|t| *t == t2).is_empty()
                }
                _ => true,
            };
            let ty = if ok { ty } else { Ty::Int };
            return vec![self.block_expr(&ty, d)];
        }
        if r < 70 && self.o.loops {
            // loop that never runs / runs while a condition over existing state holds
            self.no_decl += 1;
            let body = self.expr(&Ty::Null, d);
            self.no_decl -= 1;
            return vec![AST::loop_de_loop(AST::Boolean(false), body)];
        }
        // any expression in discarded position
        let (e, _) = self.expr_any(depth);
        vec![e]
    }

    fn branch(&mut self, depth: u32) -> AST {
        if self.rng.chance(2, 3) {
            self.scopes.push(Vec::new());
            let saved = self.no_decl;
            self.no_decl = 0;
            let mut stmts = Vec::new();
            let n = 1 + self.rng.below(2);
            for _ in 0..n {
                stmts.extend(self.stmt(depth));
            }
            self.no_decl = saved;
            self.scopes.pop();
            AST::block(stmts)
        } else {
            self.no_decl += 1;
            let s = self.stmt(depth);
            self.no_decl -= 1;
            if s.len() == 1 {
                s.into_iter().next().unwrap()
            } else {
                AST::block(s)
            }
        }
    }

    // ---- whole programs ------------------------------------------------------------------

    pub fn program(&mut self) -> AST {
        let depth = self.o.max_depth;
        let mut top: Vec<AST> = Vec::new();
        // prelude: globals whose initialisers call nothing user-defined
        let np = self.rng.below(4);
        for _ in 0..np {
            let ty = self.random_type();
            let (e, ty) = if self.o.objects && self.rng.chance(1, 4) {
                let saved = self.o.max_funcs;
                let r = self.new_object(1);
                self.o.max_funcs = saved;
                r
            } else {
                let ok = !matches!(ty, Ty::Obj(_));
                let ty = if ok { ty } else { Ty::Int };
                (self.default_value(&ty, 1), ty)
            };
            let name = self.fresh("g");
            self.declare(&name, ty.clone());
            self.prelude.push(Var { name: name.clone(), ty });
            top.push(AST::variable(id(&name), e));
        }
        // functions
        let nf = if self.o.max_funcs == 0 { 0 } else { self.rng.below(self.o.max_funcs + 1) };
        let mut fdefs: Vec<AST> = Vec::new();
        // sometimes a wide function: 9-14 scalar parameters, result mixes far-apart ones
        if nf > 0 && self.rng.chance(1, 5) {
            let name = self.fresh("wide");
            let k = 9 + self.rng.below(6);
            let params: Vec<Ty> = (0..k).map(|i| if i % 4 == 3 { Ty::Bool } else { Ty::Int }).collect();
            let ints: Vec<usize> = (0..k).filter(|i| i % 4 != 3).collect();
            let a = ints[0];
            let b = ints[ints.len() - 1];
            let c = ints[ints.len() / 2];
            let body = AST::block(vec![
                AST::print(format!("<{}:~,~,~>", name), vec![var(&format!("p{}", k - 1)), var(&format!("p{}", 3.min(k - 1))), var(&format!("p{}", c))]),
                op("-", op("+", var(&format!("p{}", a)), op("*", var(&format!("p{}", b)), AST::Integer(3))), var(&format!("p{}", c))),
            ]);
            let pnames: Vec<Identifier> = (0..k).map(|i| id(&format!("p{}", i))).collect();
            fdefs.push(AST::function(id(&name), pnames, body));
            self.funcs.push(Sig { name, params, ret: Ty::Int });
        }
        // sometimes a mutually recursive pair with a decreasing counter
        if nf > 0 && self.rng.chance(1, 5) {
            let na = self.fresh("ma");
            let nb = self.fresh("mb");
            let extra = self.random_scalar();
            let ret = self.random_scalar();
            let params = vec![Ty::Int, extra];
            let sa = Sig { name: na.clone(), params: params.clone(), ret: ret.clone() };
            let sb = Sig { name: nb.clone(), params: params.clone(), ret: ret.clone() };
            // ma calls mb(n - 1, …) and mb calls ma(n - 1, …)
            let ba = self.callee_body(&params, &ret, None, Some(sb.clone()), depth.min(2));
            let bb = self.callee_body(&params, &ret, None, Some(sa.clone()), depth.min(2));
            fdefs.push(AST::function(id(&na), vec![id("n"), id("p1")], ba));
            fdefs.push(AST::function(id(&nb), vec![id("n"), id("p1")], bb));
            self.funcs.push(sa);
            self.funcs.push(sb);
        }
        for _ in 0..nf {
            let name = self.fresh("f");
            let recursive = self.rng.chance(1, 3);
            let mut params: Vec<Ty> = Vec::new();
            if recursive {
                params.push(Ty::Int);
            }
            let k = self.rng.below(3);
            for _ in 0..k {
                let t = self.random_type();
                let ok = match &t {
                    Ty::Obj(_) => self.prelude.iter().any(|v| v.ty == t),
                    _ => true,
                };
                params.push(if ok { t } else { Ty::Int });
            }
            let ret = {
                let t = self.random_type();
                match t {
                    Ty::Obj(_) => Ty::Int,
                    other => other,
                }
            };
            let sig = Sig { name: name.clone(), params: params.clone(), ret: ret.clone() };
            let body = self.callee_body(&params, &ret, None, if recursive { Some(sig.clone()) } else { None }, depth.min(3));
            let pnames: Vec<Identifier> =
                (0..params.len()).map(|i| if recursive && i == 0 { id("n") } else { id(&format!("p{}", i)) }).collect();
            fdefs.push(AST::function(id(&name), pnames, body));
            self.funcs.push(sig);
        }
        // recursive functions are called with a small literal counter: patch the signature
        // so that callers generate small arguments (type Int already); nothing to do.
        // main statements
        let mut guard = 0;
        let max_statements = if self.o.budget > 400 { 400 } else { 40 };
        while self.budget > 0 && guard < max_statements {
            guard += 1;
            top.extend(self.stmt(depth));
        }
        if top.is_empty() {
            top.push(self.print_marker(1));
        }
        // place function definitions at random positions (they are hoisted)
        for f in fdefs {
            let pos = self.rng.below(top.len() + 1);
            top.insert(pos, f);
        }
        AST::top(top)
    }
}

/// Calls to recursive functions must pass a small counter. Walk the AST and clamp the
/// first argument of calls to functions whose first parameter is named `n`.
pub fn clamp_recursion_counters(top: &mut AST) {
    let mut rec: Vec<String> = Vec::new();
    if let AST::Top(ss) = top {
        for s in ss.iter() {
            if let AST::Function { name, parameters, .. } = &**s {
                if parameters.first().map(|p| p.as_str() == "n").unwrap_or(false) {
                    rec.push(name.as_str().to_owned());
                }
            }
        }
    }
    fn walk(a: &mut AST, rec: &[String], inside: Option<&str>) {
        match a {
            AST::CallFunction { name, arguments } => {
                let is_rec = rec.iter().any(|r| r == name.as_str());
                for (i, x) in arguments.iter_mut().enumerate() {
                    if is_rec && i == 0 {
                        let decreasing = matches!(&**x, AST::CallMethod { object, name: m, arguments: a }
                            if m.as_str() == "-" && a.len() == 1 && matches!(&**object, AST::AccessVariable { name: v } if v.as_str() == "n") && matches!(&*a[0], AST::Integer(1)));
                        let inside_rec = inside.map(|f| rec.iter().any(|r| r == f)).unwrap_or(false);
                        let self_call = inside == Some(name.as_str()) || (inside_rec && decreasing);
                        if !self_call {
                            // outside callers: literal 0..5 derived from the existing expression's shape
                            let k = (count_nodes(x) % 6) as i32;
                            **x = AST::Integer(k);
                            continue;
                        }
                    }
                    walk(x, rec, inside);
                }
            }
            AST::Function { name, body, .. } => {
                let nm = name.as_str().to_owned();
                walk(body, rec, Some(&nm));
            }
            other => for_each_child_mut(other, &mut |c| walk(c, rec, inside)),
        }
    }
    walk(top, &rec, None);
}

pub fn count_nodes(a: &AST) -> usize {
    let mut n = 1;
    for_each_child(a, &mut |c| n += count_nodes(c));
    n
}

pub fn for_each_child(a: &AST, f: &mut dyn FnMut(&AST)) {
    match a {
        AST::Integer(_) | AST::Boolean(_) | AST::Null | AST::AccessVariable { .. } => {}
        AST::Variable { value, .. } | AST::AssignVariable { value, .. } => f(value),
        AST::Array { size, value } => {
            f(size);
            f(value)
        }
        AST::Object { extends, members } => {
            f(extends);
            for m in members {
                f(m)
            }
        }
        AST::AccessField { object, .. } => f(object),
        AST::AccessArray { array, index } => {
            f(array);
            f(index)
        }
        AST::AssignField { object, value, .. } => {
            f(object);
            f(value)
        }
        AST::AssignArray { array, index, value } => {
            f(array);
            f(index);
            f(value)
        }
        AST::Function { body, .. } => f(body),
        AST::CallFunction { arguments, .. } => {
            for x in arguments {
                f(x)
            }
        }
        AST::CallMethod { object, arguments, .. } => {
            f(object);
            for x in arguments {
                f(x)
            }
        }
        AST::Top(ss) | AST::Block(ss) => {
            for s in ss {
                f(s)
            }
        }
        AST::Loop { condition, body } => {
            f(condition);
            f(body)
        }
        AST::Conditional { condition, consequent, alternative } => {
            f(condition);
            f(consequent);
            f(alternative)
        }
        AST::Print { arguments, .. } => {
            for x in arguments {
                f(x)
            }
        }
    }
}

pub fn for_each_child_mut(a: &mut AST, f: &mut dyn FnMut(&mut AST)) {
    match a {
        AST::Integer(_) | AST::Boolean(_) | AST::Null | AST::AccessVariable { .. } => {}
        AST::Variable { value, .. } | AST::AssignVariable { value, .. } => f(value),
        AST::Array { size, value } => {
            f(size);
            f(value)
        }
        AST::Object { extends, members } => {
            f(extends);
            for m in members {
                f(m)
            }
        }
        AST::AccessField { object, .. } => f(object),
        AST::AccessArray { array, index } => {
            f(array);
            f(index)
        }
        AST::AssignField { object, value, .. } => {
            f(object);
            f(value)
        }
        AST::AssignArray { array, index, value } => {
            f(array);
            f(index);
            f(value)
        }
        AST::Function { body, .. } => f(body),
        AST::CallFunction { arguments, .. } => {
            for x in arguments {
                f(x)
            }
        }
        AST::CallMethod { object, arguments, .. } => {
            f(object);
            for x in arguments {
                f(x)
            }
        }
        AST::Top(ss) | AST::Block(ss) => {
            for s in ss {
                f(s)
            }
        }
        AST::Loop { condition, body } => {
            f(condition);
            f(body)
        }
        AST::Conditional { condition, consequent, alternative } => {
            f(condition);
            f(consequent);
            f(alternative)
        }
        AST::Print { arguments, .. } => {
            for x in arguments {
                f(x)
            }
        }
    }
}

/// Generate one well-behaved program for (seed-derived) `rng`.
pub fn well_behaved(rng: &mut Rng, opts: GenOpts) -> AST {
    let mut g = Gen::new(rng, opts);
    let mut top = g.program();
    clamp_recursion_counters(&mut top);
    top
}

// ---------------------------------------------------------------------------------------------
// Fault injection (C10): insert one faulting statement at a statement position.

pub const FAULT_CLASSES: [&str; 58] = [
    "unknown-variable-read",
    "unknown-variable-write",
    "unknown-function",
    "unknown-method-int",
    "unknown-method-object",
    "unknown-field-get",
    "unknown-field-set",
    "function-arity",
    "method-arity",
    "builtin-arity",
    "index-negative",
    "index-length",
    "size-negative",
    "size-non-integer",
    "operand-kind",
    "print-too-few",
    "print-too-many",
    "div-zero",
    "mod-zero",
    "field-on-primitive",
    "method-on-null",
    "operator-on-null",
    "operator-on-array",
    "equality-on-array",
    "unknown-method-array",
    "unknown-method-bool",
    "index-boolean",
    "index-null",
    "index-object",
    "array-get-arity",
    "array-set-arity",
    "field-get-on-array",
    "field-set-on-null",
    "size-object",
    "min-div-minus-one",
    "bool-operator-int-argument",
    "object-duplicate-field",
    "object-duplicate-method",
    // near misses: the name exists close by, but not where the rules look for it
    "inherited-field-get",
    "inherited-field-set",
    "field-called-as-method",
    "method-read-as-field",
    "function-read-as-variable",
    "variable-called-as-function",
    "method-called-as-function",
    "bare-field-in-method",
    "inherited-method-arity",
    "block-local-after-block",
    "caller-local-in-callee",
    "array-method-on-object-with-array-field",
    // expressions that look constant
    "zero-divided-by-itself",
    "zero-modulo-itself",
    "array-compared-with-itself",
    "object-compared-with-itself",
    // argument counts in the other direction
    "function-arity-excess",
    "method-arity-deficit",
    "print-no-arguments-one-placeholder",
    "inherited-builtin-arity",
];

pub fn fault_statement(class: &str, tag: usize) -> Vec<AST> {
    // Each fault is self-contained: it builds what it needs in its own block scope, so it can
    // be inserted anywhere a statement is allowed. A marker is printed right before the fault
    // so that "output before the fault" is visibly distinct from "fault not reached".
    // every other marker ends without a newline: output before a fault must survive even when
    // the last line is still open
    let pre = AST::print(format!("<fault {} {}>{}", tag, class, if tag % 2 == 0 { "\\n" } else { "" }), vec![]);
    let obj = || {
        AST::object(
            AST::Null,
            vec![AST::variable(id("fx"), AST::Integer(1)), AST::function(id("fm"), vec![id("a")], AST::access_variable(id("a")))],
        )
    };
    let f = match class {
        "unknown-variable-read" => var("zz_undefined_variable"),
        "unknown-variable-write" => AST::assign_variable(id("zz_undefined_variable"), AST::Integer(1)),
        "unknown-function" => AST::call_function(id("zz_undefined_function"), vec![AST::print(format!("<arg {}>\\n", tag), vec![])]),
        "unknown-method-int" => AST::call_method(AST::Integer(1), id("zz_nosuch"), vec![AST::Integer(2)]),
        "unknown-method-object" => AST::call_method(obj(), id("zz_nosuch"), vec![]),
        "unknown-field-get" => AST::access_field(obj(), id("zz_nofield")),
        "unknown-field-set" => AST::assign_field(obj(), id("zz_nofield"), AST::Integer(3)),
        "function-arity" => {
            // calls a function that the harness adds to the program: zz_two(a, b)
            AST::call_function(id("zz_two"), vec![AST::Integer(1)])
        }
        "method-arity" => AST::call_method(obj(), id("fm"), vec![AST::Integer(1), AST::Integer(2)]),
        "builtin-arity" => AST::call_method(AST::Integer(1), id("+"), vec![AST::Integer(1), AST::Integer(2)]),
        "index-negative" => AST::access_array(AST::array(AST::Integer(2), AST::Integer(0)), AST::Integer(-1)),
        "index-length" => AST::assign_array(AST::array(AST::Integer(2), AST::Integer(0)), AST::Integer(2), AST::Integer(5)),
        "size-negative" => AST::array(AST::Integer(-1), AST::Null),
        "size-non-integer" => AST::array(AST::Boolean(true), AST::block(vec![AST::Integer(1)])),
        "operand-kind" => op("+", AST::Integer(1), AST::Boolean(true)),
        "print-too-few" => AST::print(format!("<pf {} ~ ~>\\n", tag), vec![AST::Integer(1)]),
        "print-too-many" => AST::print(format!("<pm {} ~>\\n", tag), vec![AST::Integer(1), AST::Integer(2)]),
        "div-zero" => op("/", AST::Integer(7), AST::Integer(0)),
        "mod-zero" => op("%", AST::Integer(7), op("-", AST::Integer(1), AST::Integer(1))),
        "field-on-primitive" => AST::access_field(AST::Integer(5), id("fx")),
        "method-on-null" => AST::call_method(AST::Null, id("fm"), vec![AST::Integer(1)]),
        "operator-on-null" => op("+", AST::Null, AST::Integer(1)),
        "operator-on-array" => op("+", AST::array(AST::Integer(1), AST::Integer(0)), AST::Integer(1)),
        "equality-on-array" => op("==", AST::array(AST::Integer(1), AST::Integer(0)), AST::Null),
        "unknown-method-array" => AST::call_method(AST::array(AST::Integer(1), AST::Integer(0)), id("length"), vec![]),
        "unknown-method-bool" => op("+", AST::Boolean(true), AST::Boolean(false)),
        "index-boolean" => AST::access_array(AST::array(AST::Integer(2), AST::Integer(0)), AST::Boolean(true)),
        "index-null" => AST::assign_array(AST::array(AST::Integer(2), AST::Integer(0)), AST::Null, AST::Integer(1)),
        "index-object" => AST::access_array(AST::array(AST::Integer(2), AST::Integer(0)), obj()),
        "array-get-arity" => AST::call_method(AST::array(AST::Integer(2), AST::Integer(0)), id("get"), vec![AST::Integer(0), AST::Integer(1)]),
        "array-set-arity" => AST::call_method(AST::array(AST::Integer(2), AST::Integer(0)), id("set"), vec![AST::Integer(0)]),
        "field-get-on-array" => AST::access_field(AST::array(AST::Integer(1), AST::Integer(0)), id("fx")),
        "field-set-on-null" => AST::assign_field(AST::Null, id("fx"), AST::Integer(1)),
        "size-object" => AST::array(obj(), AST::Integer(0)),
        "min-div-minus-one" => op("/", AST::Integer(i32::MIN), op("-", AST::Integer(0), AST::Integer(1))),
        "bool-operator-int-argument" => op("|", AST::Boolean(false), AST::Integer(1)),
        // the initializers run (and print), then creation fails: nothing is allocated
        "object-duplicate-field" => AST::object(
            AST::Null,
            vec![
                AST::variable(id("dup"), AST::print(format!("<init1 {}>", tag), vec![])),
                AST::variable(id("other"), AST::Integer(1)),
                AST::variable(id("dup"), AST::print(format!("<init2 {}>", tag), vec![])),
            ],
        ),
        "object-duplicate-method" => AST::object(
            AST::array(AST::Integer(1), AST::Integer(0)),
            vec![AST::function(id("dm"), vec![], AST::Integer(1)), AST::variable(id("f"), AST::Integer(2)), AST::function(id("dm"), vec![id("a")], AST::Integer(2))],
        ),
        // only methods are inherited: the child has no field fx
        "inherited-field-get" => AST::access_field(AST::object(obj(), vec![AST::variable(id("own"), AST::Integer(2))]), id("fx")),
        "inherited-field-set" => AST::assign_field(AST::object(obj(), vec![]), id("fx"), AST::Integer(3)),
        "field-called-as-method" => AST::call_method(obj(), id("fx"), vec![]),
        "method-read-as-field" => AST::access_field(obj(), id("fm")),
        "function-read-as-variable" => var("zz_two"),
        "variable-called-as-function" => AST::block(vec![AST::variable(id("zz_callee_var"), AST::Integer(1)), AST::call_function(id("zz_callee_var"), vec![])]),
        "method-called-as-function" => AST::block(vec![AST::variable(id("zz_holder"), obj()), AST::call_function(id("fm"), vec![AST::Integer(1)])]),
        // a method body sees parameters, this, its locals and globals: a field needs `this.`
        "bare-field-in-method" => AST::call_method(
            AST::object(AST::Null, vec![AST::variable(id("zz_bare_field"), AST::Integer(1)), AST::function(id("peek"), vec![], var("zz_bare_field"))]),
            id("peek"),
            vec![],
        ),
        "inherited-method-arity" => AST::call_method(AST::object(AST::object(obj(), vec![]), vec![]), id("fm"), vec![]),
        "block-local-after-block" => AST::block(vec![AST::block(vec![AST::variable(id("zz_block_local"), AST::Integer(1)), var("zz_block_local")]), var("zz_block_local")]),
        "caller-local-in-callee" => AST::block(vec![AST::variable(id("zz_caller_local"), AST::Integer(1)), AST::call_function(id("zz_reads_caller_local"), vec![])]),
        "zero-divided-by-itself" => AST::block(vec![AST::variable(id("zz_zero"), AST::Integer(0)), op("/", var("zz_zero"), var("zz_zero"))]),
        "zero-modulo-itself" => AST::block(vec![AST::variable(id("zz_zero"), AST::Integer(0)), op("%", var("zz_zero"), var("zz_zero"))]),
        "array-compared-with-itself" => AST::block(vec![AST::variable(id("zz_arr"), AST::array(AST::Integer(1), AST::Integer(0))), op("==", var("zz_arr"), var("zz_arr"))]),
        "object-compared-with-itself" => AST::block(vec![AST::variable(id("zz_obj"), obj()), op("!=", var("zz_obj"), var("zz_obj"))]),
        "function-arity-excess" => AST::call_function(id("zz_two"), vec![AST::Integer(1), AST::Integer(2), AST::Integer(3)]),
        "method-arity-deficit" => AST::call_method(obj(), id("fm"), vec![]),
        "print-no-arguments-one-placeholder" => AST::print(format!("<p0 {} ~>\\n", tag), vec![]),
        "inherited-builtin-arity" => AST::call_method(AST::object(AST::Integer(5), vec![]), id("+"), vec![]),
        "array-method-on-object-with-array-field" => {
            AST::access_array(AST::object(AST::Null, vec![AST::variable(id("items"), AST::array(AST::Integer(2), AST::Integer(0)))]), AST::Integer(0))
        }
        _ => AST::Null,
    };
    vec![pre, f]
}

/// Collect the number of statement lists (Top and Blocks) in a program.
fn count_lists(a: &AST, acc: &mut Vec<usize>) {
    if let AST::Top(ss) | AST::Block(ss) = a {
        acc.push(ss.len());
    }
    for_each_child(a, &mut |c| count_lists(c, acc));
}

/// All (list index, position) pairs where a statement can be inserted.
pub fn fault_positions(top: &AST) -> Vec<(usize, usize)> {
    let mut lens = Vec::new();
    count_lists(top, &mut lens);
    let mut out = Vec::new();
    for (li, n) in lens.iter().enumerate() {
        for p in 0..*n {
            // never after the last statement of a block: it would change the block's value
            out.push((li, p));
        }
    }
    out
}

/// Insert `stmts` before position `pos` of statement list number `list` (pre-order numbering).
pub fn insert_at(top: &mut AST, list: usize, pos: usize, stmts: Vec<AST>) -> bool {
    fn go(a: &mut AST, counter: &mut usize, list: usize, pos: usize, stmts: &mut Option<Vec<AST>>) {
        if stmts.is_none() {
            return;
        }
        if let AST::Top(ss) | AST::Block(ss) = a {
            if *counter == list {
                let ins = stmts.take().unwrap();
                let p = pos.min(ss.len());
                for (k, s) in ins.into_iter().enumerate() {
                    ss.insert(p + k, Box::new(s));
                }
                *counter += 1;
                return;
            }
            *counter += 1;
        }
        for_each_child_mut(a, &mut |c| go(c, counter, list, pos, stmts));
    }
    let mut c = 0;
    let mut s = Some(stmts);
    go(top, &mut c, list, pos, &mut s);
    s.is_none()
}

/// Adds the helper function used by the `function-arity` fault.
pub fn add_fault_helpers(top: &mut AST) {
    if let AST::Top(ss) = top {
        ss.push(Box::new(AST::function(id("zz_two"), vec![id("a"), id("b")], op("+", var("a"), var("b")))));
        ss.push(Box::new(AST::function(id("zz_reads_caller_local"), vec![], var("zz_caller_local"))));
    }
}

// ---------------------------------------------------------------------------------------------
// Unrestricted generator over the parser's range (C02, C07, C06): any well-sorted
// expression tree; undefined names and wrong kinds are welcome. Function definitions only
// at top level or as members, operator definitions only as members. Avoids same-scope
// redefinition (which the compiler rejects statically) when `avoid_static` is set.

pub struct Wild<'r> {
    rng: &'r mut Rng,
    budget: i32,
    scopes: Vec<Vec<String>>,
    avoid_static: bool,
    uniq: usize,
    pub formats: Option<Vec<String>>,
}

const WILD_NAMES: [&str; 44] = [
    "a", "b", "c", "x", "y", "foo", "_t", "this", "a1", "Bar", "get", "set", "iff", "lets", "nullx", "truely", "thisx", "dot", "end_", "_", "__", "beginning", "whiles", "printer",
    "yes", "no", "on", "off", "n", "nil", "t", "NaN", "inf", "Infinity", "e1", "_1", "True", "FALSE", "Null", "NULL", "Top", "Integer", "name", "a_very_long_identifier_that_goes_on_and_on_and_on_0123456789_ABCDEFGHIJKLMNOPQRSTUVWXYZ_and_on",
];
const WILD_METHODS: [&str; 14] = ["m", "get", "set", "print", "foo", "add", "eq", "x", "this", "k9", "objects", "arrays", "functional", "elsewhere"];

impl<'r> Wild<'r> {
    pub fn new(rng: &'r mut Rng, budget: i32, avoid_static: bool) -> Wild<'r> {
        Wild { rng, budget, scopes: vec![Vec::new()], avoid_static, uniq: 0, formats: None }
    }
    fn name(&mut self) -> String {
        WILD_NAMES[self.rng.below(WILD_NAMES.len())].to_string()
    }
    fn plain_name(&mut self) -> String {
        loop {
            let n = self.name();
            if n != "this" {
                return n;
            }
        }
    }
    fn let_name(&mut self) -> String {
        let n = self.name();
        if self.avoid_static && self.scopes.last().unwrap().contains(&n) {
            self.uniq += 1;
            let f = format!("u{}", self.uniq);
            self.scopes.last_mut().unwrap().push(f.clone());
            return f;
        }
        self.scopes.last_mut().unwrap().push(n.clone());
        n
    }
    fn format(&mut self, nargs: usize) -> String {
        if let Some(fs) = &self.formats {
            if !fs.is_empty() && self.rng.chance(2, 3) {
                return fs[self.rng.below(fs.len())].clone();
            }
        }
        let mut s = String::new();
        let pieces = ["x", " ", "\\n", "\\t", "\\\\", "\\\"", "\\~", "ž", ":", "#1", "\\r", "👍", "/*", "//", "begin"];
        let mut placed = 0;
        let n = self.rng.below(6);
        for _ in 0..n {
            if placed < nargs && self.rng.coin() {
                s.push('~');
                placed += 1;
            } else {
                s.push_str(pieces[self.rng.below(pieces.len())]);
            }
        }
        // mostly matching placeholder counts, sometimes not
        if !self.rng.chance(1, 8) {
            while placed < nargs {
                s.push('~');
                placed += 1;
            }
        }
        s
    }
    fn args(&mut self, depth: u32, max: usize) -> Vec<AST> {
        let n = self.rng.below(max + 1);
        (0..n).map(|_| self.expr(depth)).collect()
    }
    fn params(&mut self) -> Vec<Identifier> {
        let n = self.rng.below(4);
        let mut out: Vec<String> = Vec::new();
        for _ in 0..n {
            let p = self.plain_name();
            if self.avoid_static && out.contains(&p) {
                continue;
            }
            out.push(p);
        }
        out.iter().map(|s| id(s)).collect()
    }
    fn function_body(&mut self, params: &Vec<Identifier>, method: bool, depth: u32) -> AST {
        let saved = std::mem::replace(&mut self.scopes, vec![params.iter().map(|p| p.as_str().to_owned()).collect()]);
        if method {
            self.scopes[0].push("this".into());
        }
        let b = self.expr(depth);
        self.scopes = saved;
        b
    }
    pub fn expr(&mut self, depth: u32) -> AST {
        self.budget -= 1;
        if depth == 0 || self.budget <= 0 {
            return match self.rng.below(5) {
                0 => AST::Integer(self.rng.i32_interesting()),
                1 => AST::Boolean(self.rng.coin()),
                2 => AST::Null,
                _ => {
                    let n = self.name();
                    var(&n)
                }
            };
        }
        let d = depth - 1;
        match self.rng.below(22) {
            0 => AST::Integer(self.rng.i32_interesting()),
            1 => {
                let n = self.name();
                var(&n)
            }
            2 => {
                let v = self.expr(d);
                let n = self.let_name();
                AST::variable(id(&n), v)
            }
            3 => {
                let n = self.name();
                let v = self.expr(d);
                AST::assign_variable(id(&n), v)
            }
            4 => {
                let s = self.expr(d);
                let simple = self.rng.coin();
                if simple {
                    let v = self.expr(0);
                    AST::array(s, v)
                } else {
                    self.scopes.push(Vec::new());
                    let v = self.expr(d);
                    self.scopes.pop();
                    AST::array(s, v)
                }
            }
            5 => {
                let ext = if self.rng.coin() { AST::Null } else { self.expr(d) };
                let n = self.rng.below(4);
                let mut ms = Vec::new();
                let mut fnames: Vec<String> = Vec::new();
                for _ in 0..n {
                    if self.rng.coin() {
                        let v = self.expr(d);
                        let mut f = self.plain_name();
                        if f == "print" {
                            f = "p".into();
                        }
                        if self.avoid_static && fnames.contains(&f) {
                            continue;
                        }
                        fnames.push(f.clone());
                        ms.push(AST::variable(id(&f), v));
                    } else {
                        let ps = self.params();
                        let nm = if self.rng.chance(1, 3) {
                            super::printer::OPERATORS[self.rng.below(13)].to_string()
                        } else {
                            WILD_METHODS[self.rng.below(WILD_METHODS.len())].to_string()
                        };
                        let b = self.function_body(&ps, true, d);
                        ms.push(AST::function(id(&nm), ps, b));
                    }
                }
                AST::object(ext, ms)
            }
            6 => {
                let o = self.expr(d);
                let f = self.plain_name();
                AST::access_field(o, id(&f))
            }
            7 => {
                let a = self.expr(d);
                let i = self.expr(d);
                AST::access_array(a, i)
            }
            8 => {
                let o = self.expr(d);
                let f = self.plain_name();
                let v = self.expr(d);
                AST::assign_field(o, id(&f), v)
            }
            9 => {
                let a = self.expr(d);
                let i = self.expr(d);
                let v = self.expr(d);
                AST::assign_array(a, i, v)
            }
            10 => {
                let n = self.name();
                let a = self.args(d, 3);
                AST::call_function(id(&n), a)
            }
            11 | 12 => {
                let o = self.expr(d);
                let l = self.expr(d);
                let name = super::printer::OPERATORS[self.rng.below(13)];
                AST::call_method(o, id(name), vec![l])
            }
            13 => {
                let o = self.expr(d);
                let nm = if self.rng.chance(1, 4) {
                    super::printer::OPERATORS[self.rng.below(13)].to_string()
                } else {
                    WILD_METHODS[self.rng.below(WILD_METHODS.len())].to_string()
                };
                let a = self.args(d, 3);
                AST::call_method(o, id(&nm), a)
            }
            14 | 15 => {
                self.scopes.push(Vec::new());
                let n = 1 + self.rng.below(4);
                let ss: Vec<AST> = (0..n).map(|_| self.expr(d)).collect();
                self.scopes.pop();
                AST::block(ss)
            }
            16 => {
                let c = self.expr(d);
                let b = self.expr(d);
                AST::loop_de_loop(c, b)
            }
            17 | 18 => {
                let c = self.expr(d);
                let t = self.expr(d);
                let e = if self.rng.coin() { AST::Null } else { self.expr(d) };
                AST::conditional(c, t, e)
            }
            19 | 20 => {
                let a = self.args(d, 3);
                let f = self.format(a.len());
                AST::print(f, a)
            }
            _ => AST::Boolean(self.rng.coin()),
        }
    }
    pub fn program(&mut self, depth: u32) -> AST {
        let n = 1 + self.rng.below(6);
        let mut top = Vec::new();
        let mut fnames: Vec<String> = Vec::new();
        for _ in 0..n {
            if self.rng.chance(1, 5) {
                let mut nm = self.plain_name();
                if self.rng.chance(1, 10) {
                    nm = "print".into();
                }
                if self.avoid_static && fnames.contains(&nm) {
                    continue;
                }
                fnames.push(nm.clone());
                let ps = self.params();
                let b = self.function_body(&ps, false, depth);
                top.push(AST::function(id(&nm), ps, b));
            } else {
                top.push(self.expr(depth));
            }
        }
        if top.is_empty() {
            top.push(AST::Null);
        }
        AST::top(top)
    }
}

pub fn wild(rng: &mut Rng, budget: i32, depth: u32, avoid_static: bool) -> AST {
    let mut w = Wild::new(rng, budget, avoid_static);
    w.program(depth)
}

// ---------------------------------------------------------------------------------------------
// Pairwise matrix: every construct kind in every context kind (deterministic).

pub const MATRIX_PRELUDE: &str = "\
function f0() -> 7;
function f2(a, b) -> a * 10 + b;
function id2(a, b) -> b;
function t(k) -> begin print(\"<~>\", k); k end;
let g = 5;
let arr = array(3, 1);
let obj = object begin let x = 1; let y = 2; function m(a) -> this.x + a; function get(i) -> i * 2; function set(i, v) -> this.x <- v; function +(o) -> this.x + o; end;
";

pub const MATRIX_PROBE: &str = "print(\"|g=~ arr=~ obj=~\\n\", g, arr, obj);\n";

/// (name, expression text with `Q` standing for a fresh variable name)
pub const MATRIX_CONSTRUCTS: [(&str, &str); 47] = [
    ("int", "3"),
    ("bool", "true"),
    ("null", "null"),
    ("global", "g"),
    ("let", "(let Q = 4)"),
    ("assign", "(g <- g + 1)"),
    ("if-else", "(if g > 3 then 1 else 2)"),
    ("if-noelse", "(if g > 9 then 1)"),
    ("while", "(while false do 1)"),
    ("while-run", "begin let Q = 0; while Q < 2 do Q <- Q + 1 end"),
    ("block", "begin 1; 2 end"),
    ("block-let", "begin let Q = 3; Q + 1 end"),
    ("array-simple", "array(2, 0)"),
    ("array-simple-var", "array(2, g)"),
    ("array-compound", "array(2, begin g <- g + 1; g end)"),
    ("index-get", "arr[1]"),
    ("index-set", "(arr[1] <- 9)"),
    ("field-get", "obj.x"),
    ("field-set", "(obj.x <- 8)"),
    ("method", "obj.m(2)"),
    ("obj-get", "obj[3]"),
    ("obj-set", "(obj[1] <- 6)"),
    ("obj-op", "obj + 4"),
    ("call0", "f0()"),
    ("call2", "f2(1, 2)"),
    ("print", "(print(\"p~;\", 1))"),
    ("object", "(object begin let a = 1; end)"),
    ("object-ext", "(object extends obj begin function k() -> 1; end)"),
    ("arith", "1 + 2 * 3"),
    ("tracers", "t(1) + t(2)"),
    ("local-read", "begin let Q = 6; Q; Q end"),
    // values in roles they rarely play (condition, size, index, parent, receiver)
    ("zero", "0"),
    ("negative", "-1"),
    ("false", "false"),
    ("empty-array", "array(0, 0)"),
    ("empty-object", "(object begin end)"),
    ("object-extends-false", "(object extends false begin let z = 1; end)"),
    ("object-extends-null", "(object extends null begin function k() -> 1; end)"),
    ("object-extends-zero", "(object extends 0 begin end)"),
    ("object-chain-to-false", "(object extends (object extends false begin end) begin end)"),
    ("array-of-false", "array(1, false)"),
    // undefined operations: whatever surrounds them, the output of what completed before stays and nothing after runs
    ("fault-div", "(t(7) / (g - g))"),
    ("fault-unknown-function", "nosuch_fn(t(8))"),
    ("fault-print-mismatch", "(print(\"x~~;\", t(9)))"),
    ("fault-unknown-method", "obj.nosuch(t(6))"),
    ("fault-index", "arr[t(5)]"),
    ("fault-arity", "f2(t(4))"),
];

/// (name, statements with `H` as the hole)
pub const MATRIX_CONTEXTS: [(&str, &str); 38] = [
    ("top-discard", "H;"),
    ("top-keep", "print(\"~\\n\", H);"),
    ("block-discard", "begin H; 1 end;"),
    ("block-keep", "print(\"~\\n\", begin 0; H end);"),
    ("fn-keep", "function fx() -> H; print(\"~\\n\", fx());"),
    ("fn-discard", "function fx() -> begin H; 2 end; print(\"~\\n\", fx());"),
    ("fn-param-beneath", "function fx(p) -> begin H; p end; print(\"~\\n\", fx(11));"),
    ("method-keep", "let o2 = object begin function mm() -> H; end; print(\"~\\n\", o2.mm());"),
    ("method-discard", "let o2 = object begin function mm() -> begin H; 3 end; end; print(\"~\\n\", o2.mm());"),
    ("loop-body", "let i = 0; while i < 2 do begin H; i <- i + 1 end;"),
    ("loop-body-bare", "let i = 0; while (i <- i + 1) < 3 do H;"),
    ("cond", "if H then print(\"T\\n\") else print(\"F\\n\");"),
    ("then-keep", "print(\"~\\n\", if true then H else 0);"),
    ("else-keep", "print(\"~\\n\", if false then 0 else H);"),
    ("then-discard", "if true then H else 0;"),
    ("else-discard", "if false then 0 else H;"),
    ("noelse-discard", "if true then H;"),
    ("arg-middle", "print(\"~ ~ ~\\n\", 1, H, 3);"),
    ("arg-discard-beneath", "print(\"~ ~ ~\\n\", 1, begin H; 2 end, 3);"),
    ("call-arg", "print(\"~\\n\", id2(t(1), H));"),
    ("call-arg-discard", "print(\"~\\n\", id2(t(1), begin H; 5 end));"),
    ("array-size", "print(\"~\\n\", array(H, 0));"),
    ("array-init", "print(\"~\\n\", array(2, H));"),
    ("array-init-discard", "print(\"~\\n\", array(2, begin H; 4 end));"),
    ("field-init", "print(\"~\\n\", object begin let fld = H; let z = 0; end);"),
    ("parent", "print(\"~\\n\", object extends H begin let z = 0; end);"),
    ("index", "print(\"~\\n\", arr[H]);"),
    ("index-value", "print(\"~\\n\", arr[0] <- H);"),
    ("field-value", "print(\"~\\n\", obj.y <- H);"),
    ("let-value", "let z = H; print(\"~\\n\", z);"),
    ("assign-value", "g <- H; print(\"~\\n\", g);"),
    ("receiver", "print(\"~\\n\", (H).m(1));"),
    ("eq-left", "print(\"~\\n\", H == 1);"),
    ("eq-right", "print(\"~\\n\", 1 == H);"),
    ("loop-condition-once", "let once = 0; while (if once == 0 then begin once <- 1; H end else false) do print(\"L\\n\");"),
    ("and-right", "print(\"~\\n\", true & H);"),
    ("method-of-literal", "print(\"~\\n\", (object begin function mm(a) -> a; end).mm(H));"),
    // the very last statement of the program (no probe after it)
    ("top-last", "print(\"|g=~ arr=~ obj=~\\n\", g, arr, obj); H"),
];

pub fn matrix_program(ci: usize, xi: usize) -> (String, String) {
    let (cn, c) = MATRIX_CONSTRUCTS[ci];
    let (xn, x) = MATRIX_CONTEXTS[xi];
    let c = c.replace('Q', "qq");
    let body = x.replace('H', &c);
    (format!("{}@{}", cn, xn), format!("{}{}\n{}", MATRIX_PRELUDE, body, if xn.ends_with("-last") { "" } else { MATRIX_PROBE }))
}

/// expression wrappers with `H` as the hole: a second level of context between construct and statement
pub const MATRIX_WRAPPERS: [(&str, &str); 16] = [
    ("w-block-discard", "begin H; 1 end"),
    ("w-block-keep", "begin 0; H end"),
    ("w-then", "(if true then H else 0)"),
    ("w-else", "(if false then 0 else H)"),
    ("w-second-arg", "id2(t(1), H)"),
    ("w-first-arg", "id2(H, t(2))"),
    ("w-array-init", "array(2, H)"),
    ("w-field-init", "(object begin let fld = H; end)"),
    ("w-let", "(let WW = H)"),
    ("w-let-read", "begin let WW = H; WW end"),
    ("w-element-value", "(arr[0] <- H)"),
    ("w-field-value", "(obj.y <- H)"),
    ("w-dead-loop", "(while false do H)"),
    ("w-loop-twice", "begin let i2 = 0; while i2 < 2 do begin H; i2 <- i2 + 1 end; i2 end"),
    ("w-print-arg", "(print(\"w~;\", H))"),
    ("w-method-arg", "obj.m(H)"),
];

/// construct `ci` inside wrapper `wi` inside context `xi`
pub fn matrix3_program(ci: usize, wi: usize, xi: usize) -> (String, String) {
    let (cn, c) = MATRIX_CONSTRUCTS[ci];
    let (wn, w) = MATRIX_WRAPPERS[wi];
    let (xn, x) = MATRIX_CONTEXTS[xi];
    let c = c.replace('Q', "qq");
    let inner = w.replace('H', &c);
    let body = x.replace('H', &inner);
    (format!("{}@{}@{}", cn, wn, xn), format!("{}{}\n{}", MATRIX_PRELUDE, body, if xn.ends_with("-last") { "" } else { MATRIX_PROBE }))
}

pub fn matrix_size() -> usize {
    MATRIX_CONSTRUCTS.len() * MATRIX_CONTEXTS.len()
}

/// Does the program contain an array whose size expression mentions an integer literal beyond
/// `limit`? Such programs are not executed by the harness (a single `array(2147483647, 0)` asks
/// the VM for tens of gigabytes).
pub fn has_huge_array_size(a: &AST, limit: i64) -> bool {
    fn lit_beyond(a: &AST, limit: i64) -> bool {
        if let AST::Integer(i) = a {
            if (*i as i64).abs() > limit {
                return true;
            }
        }
        let mut found = false;
        for_each_child(a, &mut |c| found = found || lit_beyond(c, limit));
        found
    }
    if let AST::Array { size, .. } = a {
        if lit_beyond(size, limit) {
            return true;
        }
    }
    let mut found = false;
    for_each_child(a, &mut |c| found = found || has_huge_array_size(c, limit));
    found
}
