//! Deterministic PRNG (SplitMix64 seeding + xoshiro256**). Every case is
//! reproducible from (seed, check, shard, index).

#[derive(Clone, Debug)]
pub struct Rng {
    s: [u64; 4],
}

fn splitmix(x: &mut u64) -> u64 {
    *x = x.wrapping_add(0x9E37_79B9_7F4A_7C15);
    let mut z = *x;
    z = (z ^ (z >> 30)).wrapping_mul(0xBF58_476D_1CE4_E5B9);
    z = (z ^ (z >> 27)).wrapping_mul(0x94D0_49BB_1331_11EB);
    z ^ (z >> 31)
}

pub fn hash_str(s: &str) -> u64 {
    hash_bytes(s.as_bytes())
}

/// FNV-1a 64 followed by a splitmix finaliser; used for case identity.
pub fn hash_bytes(b: &[u8]) -> u64 {
    let mut h: u64 = 0xcbf2_9ce4_8422_2325;
    for &c in b {
        h ^= c as u64;
        h = h.wrapping_mul(0x0000_0100_0000_01B3);
    }
    let mut x = h;
    splitmix(&mut x)
}

impl Rng {
    pub fn new(seed: u64) -> Rng {
        let mut x = seed;
        let s = [splitmix(&mut x), splitmix(&mut x), splitmix(&mut x), splitmix(&mut x)];
        Rng { s }
    }
    /// Independent stream for (seed, label, a, b).
    pub fn derive(seed: u64, label: &str, a: u64, b: u64) -> Rng {
        let mut x = seed ^ hash_str(label);
        let m = splitmix(&mut x) ^ a.wrapping_mul(0x9E37_79B9_7F4A_7C15);
        let mut y = m;
        let n = splitmix(&mut y) ^ b.wrapping_mul(0xD6E8_FEB8_6659_FD93);
        Rng::new(n)
    }
    pub fn next_u64(&mut self) -> u64 {
        let r = self.s[1].wrapping_mul(5).rotate_left(7).wrapping_mul(9);
        let t = self.s[1] << 17;
        self.s[2] ^= self.s[0];
        self.s[3] ^= self.s[1];
        self.s[1] ^= self.s[2];
        self.s[0] ^= self.s[3];
        self.s[2] ^= t;
        self.s[3] = self.s[3].rotate_left(45);
        r
    }
    /// Uniform in 0..n (n > 0).
    pub fn below(&mut self, n: usize) -> usize {
        debug_assert!(n > 0);
        (self.next_u64() % (n as u64)) as usize
    }
    /// Uniform in lo..=hi.
    pub fn range(&mut self, lo: i64, hi: i64) -> i64 {
        debug_assert!(lo <= hi);
        let span = (hi - lo) as u64 + 1;
        lo + (self.next_u64() % span) as i64
    }
    pub fn chance(&mut self, num: u32, den: u32) -> bool {
        (self.next_u64() % den as u64) < num as u64
    }
    pub fn coin(&mut self) -> bool {
        self.next_u64() & 1 == 1
    }
    pub fn pick<'a, T>(&mut self, xs: &'a [T]) -> &'a T {
        &xs[self.below(xs.len())]
    }
    pub fn shuffle<T>(&mut self, xs: &mut [T]) {
        for i in (1..xs.len()).rev() {
            let j = self.below(i + 1);
            xs.swap(i, j);
        }
    }
    /// Pick an index according to integer weights.
    pub fn weighted(&mut self, weights: &[u32]) -> usize {
        let total: u64 = weights.iter().map(|w| *w as u64).sum();
        debug_assert!(total > 0);
        let mut r = self.next_u64() % total;
        for (i, w) in weights.iter().enumerate() {
            if r < *w as u64 {
                return i;
            }
            r -= *w as u64;
        }
        weights.len() - 1
    }
    pub fn i32_any(&mut self) -> i32 {
        self.next_u64() as u32 as i32
    }
    /// Integers biased towards boundaries.
    pub fn i32_interesting(&mut self) -> i32 {
        const B: [i32; 22] = [
            0, 1, -1, 2, -2, 3, 7, -7, 10, 255, 256, 46340, 46341, -46341, 65535, 65536,
            i32::MAX, i32::MIN, i32::MAX - 1, i32::MIN + 1, 1 << 30, -(1 << 30),
        ];
        match self.below(4) {
            0 => B[self.below(B.len())],
            1 => self.range(-20, 20) as i32,
            2 => self.range(-100_000, 100_000) as i32,
            _ => self.i32_any(),
        }
    }
}
