//! AST -> concrete syntax, written from the grammar description in the README
//! and DESIGN.md Appendix C (not derived from the LALRPOP actions). Produces a
//! token list so that C07 can decorate every token boundary.

use crate::parser::AST;

use super::rng::Rng;

pub const OPERATORS: [&str; 13] = ["|", "&", "==", "!=", ">", "<", ">=", "<=", "+", "-", "*", "/", "%"];

pub const KEYWORDS: [&str; 17] = [
    "begin", "end", "if", "then", "else", "let", "null", "print", "object", "extends", "while", "do", "function", "array", "true",
    "false", "this",
];

/// Precedence level of a binary operator, loosest = 0.
pub fn op_level(name: &str) -> Option<u8> {
    match name {
        "|" => Some(0),
        "&" => Some(1),
        "==" | "!=" | "<" | ">" | "<=" | ">=" => Some(2),
        "+" | "-" => Some(3),
        "*" | "/" | "%" => Some(4),
        _ => None,
    }
}

pub fn is_identifier(s: &str) -> bool {
    let mut cs = s.chars();
    match cs.next() {
        Some(c) if c == '_' || c.is_ascii_alphabetic() => {}
        _ => return false,
    }
    if !cs.all(|c| c == '_' || c.is_ascii_alphanumeric()) {
        return false;
    }
    // `this` lexes as THIS which the grammar accepts wherever an identifier is
    !KEYWORDS.contains(&s) || s == "this"
}

/// Is `s` usable between double quotes as a print format in source text?
pub fn is_source_format(s: &str) -> bool {
    let mut it = s.chars();
    while let Some(c) = it.next() {
        if c == '"' {
            return false;
        }
        if c == '\\' {
            match it.next() {
                Some('~') | Some('n') | Some('t') | Some('r') | Some('\\') | Some('"') => {}
                _ => return false,
            }
        }
    }
    true
}

#[derive(Clone, Copy, Debug, PartialEq)]
pub enum Parens {
    Minimal,
    Full,
    /// each node flips a coin
    Random,
}

pub struct Style<'r> {
    pub parens: Parens,
    /// randomise optional syntax (else null, infix vs method form, trailing ; and ,)
    pub rng: Option<&'r mut Rng>,
}

impl<'r> Style<'r> {
    pub fn minimal() -> Style<'static> {
        Style { parens: Parens::Minimal, rng: None }
    }
    fn coin(&mut self) -> bool {
        match &mut self.rng {
            Some(r) => r.coin(),
            None => false,
        }
    }
    fn chance(&mut self, n: u32, d: u32) -> bool {
        match &mut self.rng {
            Some(r) => r.chance(n, d),
            None => false,
        }
    }
}

/// Context levels: -1 expression, 0..=4 operation operand needing at least that
/// level, 5 operand (accessible or field chain), 6 accessible.
const EXPR: i8 = -1;
const OPERAND: i8 = 5;
const ACCESSIBLE: i8 = 6;

pub struct Printer<'r> {
    pub toks: Vec<String>,
    style: Style<'r>,
    pub unprintable: Option<String>,
}

fn natural_level(a: &AST, infix: bool) -> i8 {
    match a {
        AST::Integer(_) | AST::Boolean(_) | AST::Null | AST::AccessVariable { .. } | AST::CallFunction { .. } | AST::Array { .. }
        | AST::AccessArray { .. } => ACCESSIBLE,
        AST::Block(ss) => {
            if ss.is_empty() {
                EXPR
            } else {
                ACCESSIBLE
            }
        }
        AST::CallMethod { name, arguments, .. } => {
            if infix && arguments.len() == 1 {
                op_level(name.as_str()).map(|l| l as i8).unwrap_or(ACCESSIBLE)
            } else {
                ACCESSIBLE
            }
        }
        AST::AccessField { .. } => OPERAND,
        _ => EXPR,
    }
}

impl<'r> Printer<'r> {
    pub fn new(style: Style<'r>) -> Printer<'r> {
        Printer { toks: Vec::new(), style, unprintable: None }
    }
    fn t(&mut self, s: &str) {
        self.toks.push(s.to_owned());
    }
    fn bad(&mut self, s: String) {
        if self.unprintable.is_none() {
            self.unprintable = Some(s);
        }
    }
    fn ident(&mut self, s: &str) {
        if !is_identifier(s) || (KEYWORDS.contains(&s) && s != "this") {
            self.bad(format!("not an identifier: {:?}", s));
        }
        self.t(s);
    }

    pub fn top(&mut self, a: &AST) {
        match a {
            AST::Top(ss) => {
                let n = ss.len();
                for (i, s) in ss.iter().enumerate() {
                    match &**s {
                        AST::Function { name, parameters, body } => {
                            self.t("function");
                            if name.as_str() == "print" {
                                self.t("print");
                            } else {
                                self.ident(name.as_str());
                            }
                            self.params(parameters);
                            self.t("->");
                            self.expr(body, EXPR, false);
                        }
                        other => self.expr(other, EXPR, false),
                    }
                    if i + 1 < n || self.style.chance(1, 4) {
                        self.t(";");
                    }
                }
                if n == 0 {
                    self.bad("empty Top".into());
                }
            }
            _ => self.bad("not a Top".into()),
        }
    }

    fn params(&mut self, ps: &Vec<crate::parser::Identifier>) {
        self.t("(");
        let n = ps.len();
        for (i, p) in ps.iter().enumerate() {
            self.ident(p.as_str());
            if i + 1 < n || self.style.chance(1, 8) {
                self.t(",");
            }
        }
        self.t(")");
    }

    fn args(&mut self, xs: &Vec<Box<AST>>) {
        let n = xs.len();
        for (i, x) in xs.iter().enumerate() {
            self.expr(x, EXPR, false);
            if i + 1 < n || self.style.chance(1, 8) {
                self.t(",");
            }
        }
    }

    /// Emit `a` where a construct of level `ctx` is required. `closed` = the
    /// expression sits on the right edge of a then-part that is followed by `else`.
    pub fn expr(&mut self, a: &AST, ctx: i8, closed: bool) {
        let infix = match a {
            AST::CallMethod { name, arguments, .. } if arguments.len() == 1 && op_level(name.as_str()).is_some() => {
                // infix unless the style randomly prefers method form
                !self.style.chance(1, 6)
            }
            _ => false,
        };
        let nat = natural_level(a, infix);
        let wrap = match self.style.parens {
            Parens::Full => true,
            Parens::Random => self.style.coin() && self.style.coin(),
            Parens::Minimal => false,
        };
        if wrap || nat < ctx {
            // `function` and empty blocks cannot be parenthesised into validity
            self.t("(");
            self.bare(a, infix, false);
            self.t(")");
        } else {
            self.bare(a, infix, closed);
        }
    }

    fn bare(&mut self, a: &AST, infix: bool, closed: bool) {
        match a {
            AST::Integer(i) => self.t(&i.to_string()),
            AST::Boolean(b) => self.t(if *b { "true" } else { "false" }),
            AST::Null => {
                if self.style.chance(1, 10) {
                    self.t("begin");
                    self.t("end");
                } else {
                    self.t("null")
                }
            }
            AST::Variable { name, value } => {
                self.t("let");
                self.ident(name.as_str());
                self.t("=");
                self.expr(value, EXPR, closed);
            }
            AST::AccessVariable { name } => self.ident(name.as_str()),
            AST::AssignVariable { name, value } => {
                self.ident(name.as_str());
                self.t("<-");
                self.expr(value, EXPR, closed);
            }
            AST::Array { size, value } => {
                self.t("array");
                self.t("(");
                self.expr(size, EXPR, false);
                self.t(",");
                self.expr(value, EXPR, false);
                self.t(")");
            }
            AST::Object { extends, members } => {
                self.t("object");
                let omit = matches!(**extends, AST::Null) && !self.style.chance(1, 5);
                if !omit {
                    self.t("extends");
                    // any expression is allowed by the grammar; the plain styles keep it at operand
                    // level, the varied style also writes it bare
                    if self.style.chance(1, 2) && !matches!(**extends, AST::Object { .. }) {
                        self.expr(extends, EXPR, false);
                    } else {
                        self.expr(extends, OPERAND, false);
                    }
                }
                self.t("begin");
                let n = members.len();
                for (i, m) in members.iter().enumerate() {
                    match &**m {
                        AST::Variable { name, value } => {
                            self.t("let");
                            if name.as_str() == "print" {
                                self.bad("field named print".into());
                            }
                            self.ident(name.as_str());
                            self.t("=");
                            self.expr(value, EXPR, false);
                        }
                        AST::Function { name, parameters, body } => {
                            self.t("function");
                            let nm = name.as_str();
                            if op_level(nm).is_some() || nm == "print" {
                                self.t(nm);
                            } else {
                                self.ident(nm);
                            }
                            self.params(parameters);
                            self.t("->");
                            self.expr(body, EXPR, false);
                        }
                        other => self.bad(format!("object member {}", super::refsem::node_kind(other))),
                    }
                    if i + 1 < n || self.style.chance(1, 3) {
                        self.t(";");
                    }
                }
                self.t("end");
            }
            AST::AccessField { object, field } => {
                self.expr(object, OPERAND, false);
                self.t(".");
                if field.as_str() == "print" {
                    self.bad("field named print".into());
                }
                self.ident(field.as_str());
            }
            AST::AccessArray { array, index } => {
                self.expr(array, OPERAND, false);
                self.t("[");
                self.expr(index, EXPR, false);
                self.t("]");
            }
            AST::AssignField { object, field, value } => {
                self.expr(object, OPERAND, false);
                self.t(".");
                if field.as_str() == "print" {
                    self.bad("field named print".into());
                }
                self.ident(field.as_str());
                self.t("<-");
                self.expr(value, EXPR, closed);
            }
            AST::AssignArray { array, index, value } => {
                self.expr(array, OPERAND, false);
                self.t("[");
                self.expr(index, EXPR, false);
                self.t("]");
                self.t("<-");
                self.expr(value, EXPR, closed);
            }
            AST::Function { .. } => self.bad("function definition in expression position".into()),
            AST::CallFunction { name, arguments } => {
                if name.as_str() == "print" {
                    self.bad("call of a function named print".into());
                }
                self.ident(name.as_str());
                self.t("(");
                self.args(arguments);
                self.t(")");
            }
            AST::CallMethod { object, name, arguments } => {
                let nm = name.as_str();
                if infix {
                    let l = op_level(nm).unwrap() as i8;
                    self.expr(object, l, false);
                    self.t(nm);
                    self.expr(&arguments[0], l + 1, false);
                } else {
                    self.expr(object, OPERAND, false);
                    self.t(".");
                    if op_level(nm).is_some() || nm == "print" {
                        self.t(nm);
                    } else {
                        self.ident(nm);
                    }
                    self.t("(");
                    self.args(arguments);
                    self.t(")");
                }
            }
            AST::Top(_) => self.bad("nested Top".into()),
            AST::Block(ss) => {
                if ss.is_empty() {
                    self.bad("empty Block".into());
                }
                self.t("begin");
                let n = ss.len();
                for (i, s) in ss.iter().enumerate() {
                    self.expr(s, EXPR, false);
                    if i + 1 < n || self.style.chance(1, 3) {
                        self.t(";");
                    }
                }
                self.t("end");
            }
            AST::Loop { condition, body } => {
                self.t("while");
                self.expr(condition, EXPR, false);
                self.t("do");
                self.expr(body, EXPR, closed);
            }
            AST::Conditional { condition, consequent, alternative } => {
                self.t("if");
                self.expr(condition, EXPR, false);
                self.t("then");
                let drop_else = matches!(**alternative, AST::Null) && !closed && !self.style.chance(1, 4);
                if drop_else {
                    self.expr(consequent, EXPR, false);
                } else {
                    self.expr(consequent, EXPR, true);
                    self.t("else");
                    self.expr(alternative, EXPR, closed);
                }
            }
            AST::Print { format, arguments } => {
                if !is_source_format(format) {
                    self.bad(format!("format not expressible in source: {:?}", format));
                }
                self.t("print");
                self.t("(");
                self.t(&format!("\"{}\"", format));
                if !arguments.is_empty() {
                    self.t(",");
                    self.args(arguments);
                }
                self.t(")");
            }
        }
    }
}

/// Tokens of a whole program, or Err if the AST is outside the parser's range.
pub fn tokens(top: &AST, style: Style) -> Result<Vec<String>, String> {
    let mut p = Printer::new(style);
    p.top(top);
    match p.unprintable {
        Some(e) => Err(e),
        None => Ok(p.toks),
    }
}

pub fn join_plain(toks: &[String]) -> String {
    let mut s = String::new();
    let mut col = 0;
    for t in toks {
        if col > 100 {
            s.push('\n');
            col = 0;
        } else if !s.is_empty() {
            s.push(' ');
        }
        s.push_str(t);
        col += t.len() + 1;
        if t == ";" {
            s.push('\n');
            col = 0;
        }
    }
    s.push('\n');
    s
}

/// Source text with minimal parentheses and plain layout.
pub fn to_source(top: &AST) -> Result<String, String> {
    tokens(top, Style::minimal()).map(|t| join_plain(&t))
}

const COMMENT_BODIES: [&str; 16] = [
    "", " plain ", "*", "**", "***", "* x **", " x ***", " a * b / c ", " \"quoted\" 'q' ", " žluťoučký 👍 ", " // nested line ", " begin end if ( ", "/ * /", "/", "*\n*",
    " x <- x + 1; ",
];

/// Join tokens with a random non-empty separator from the whitespace / comment alphabet
/// at every token boundary (and optionally before the first / after the last token).
pub fn join_decorated(toks: &[String], rng: &mut Rng) -> String {
    let mut s = String::new();
    let n = toks.len();
    for (i, t) in toks.iter().enumerate() {
        if i > 0 || rng.chance(1, 3) {
            let k = 1 + rng.below(3);
            let mut have_separator = false;
            // "/" followed by "/*" or "//" would lex as a line comment: keep them apart
            if s.ends_with('/') {
                s.push(' ');
                have_separator = true;
            }
            for _ in 0..k {
                match rng.below(10) {
                    // the rest of what Unicode (and the lexer's `\s`) calls white space: form feed, vertical
                    // tab, NEL, no-break space, line and paragraph separators, em and ideographic space
                    9 => {
                        s.push(['\u{c}', '\u{b}', '\u{85}', '\u{a0}', '\u{2028}', '\u{2029}', '\u{2003}', '\u{3000}', '\u{1680}', '\u{202f}'][rng.below(10)]);
                        have_separator = true;
                    }
                    0 | 1 => {
                        s.push(' ');
                        have_separator = true;
                    }
                    2 => {
                        s.push('\t');
                        have_separator = true;
                    }
                    3 => {
                        s.push('\n');
                        have_separator = true;
                    }
                    4 => {
                        s.push_str("\r\n");
                        have_separator = true;
                    }
                    5 => {
                        s.push('\r');
                        have_separator = true;
                    }
                    6 => {
                        s.push_str("//");
                        let b = *rng.pick(&COMMENT_BODIES);
                        s.push_str(&b.replace('\n', " "));
                        s.push('\n');
                        have_separator = true;
                    }
                    _ => {
                        s.push_str("/*");
                        let b = *rng.pick(&COMMENT_BODIES);
                        // a body must not contain the terminator, and "*" + "/" must not
                        // arise at the seam with the closing delimiter
                        let b = b.replace("*/", "* /");
                        s.push_str(&b);
                        if b.ends_with('/') || b.ends_with('*') {
                            // "/*/" would still need a proper terminator; "**/" is fine
                        }
                        s.push_str("*/");
                        // a block comment separates tokens by itself
                        have_separator = true;
                    }
                }
            }
            if !have_separator {
                s.push(' ');
            }
        }
        s.push_str(t);
        let _ = n;
    }
    match rng.below(4) {
        0 => s.push('\n'),
        1 => s.push_str(" // trailing comment without newline"),
        2 => s.push_str(" /* trailing */ "),
        _ => {}
    }
    s
}

fn is_wordy(c: char) -> bool {
    c == '_' || c.is_ascii_alphanumeric()
}

/// Must two adjacent tokens be separated so that they lex as themselves? (DESIGN.md Appendix C)
pub fn needs_separator(a: &str, b: &str) -> bool {
    let (la, fb) = match (a.chars().last(), b.chars().next()) {
        (Some(x), Some(y)) => (x, y),
        _ => return false,
    };
    if is_wordy(la) && is_wordy(fb) {
        return true;
    }
    // "-" followed by a digit would become a negative literal; a word followed by a negative
    // literal is fine to write tight only if a binary minus was meant, which it is not
    if a == "-" && fb.is_ascii_digit() {
        return true;
    }
    if is_wordy(la) && fb == '-' && b.len() > 1 && b[1..].starts_with(|c: char| c.is_ascii_digit()) {
        // `a` `-1` must not read as `a - 1`: it would not even be the same token sequence
        return true;
    }
    matches!(
        (la, fb),
        ('<', '-') | ('<', '=') | ('>', '=') | ('=', '=') | ('!', '=') | ('-', '>') | ('/', '/') | ('/', '*') | ('*', '/') | ('&', '&') | ('|', '|') | ('<', '<') | ('>', '>') | ('-', '-')
    )
}

/// Source text with no layout at all except where two tokens would otherwise merge.
pub fn join_tight(toks: &[String]) -> String {
    let mut s = String::new();
    for (i, t) in toks.iter().enumerate() {
        if i > 0 && needs_separator(&toks[i - 1], t) {
            s.push(' ');
        }
        s.push_str(t);
    }
    s
}
