//! Structural builder of bytecode programs (C03, C04, C17): any mix of
//! constants incl. non-ASCII and empty strings, extreme integers, empty
//! classes, zero-length names, many methods, empty method bodies. Programs are
//! *structurally valid* (every reference has the kind its user requires) but
//! not necessarily executable.

use super::bcfmt::{Const, Ins, Prog};
use super::rng::Rng;

const STRINGS: [&str; 34] = [
    "18446744073709551615",
    "k:18446744073709551615",
    "4294967295",
    "-2147483648",
    "65535",
    "0",
    "",
    "a",
    "λ:",
    "main",
    "žluťoučký kůň",
    "👍",
    "x\"y",
    "#12",
    "::3",
    "method #0 args:0 locals:0 0000-0002",
    "slot #1",
    "class #1,#2",
    "Entry: #3",
    "Globals:",
    "Code:",
    "0: lit #1",
    "null",
    "true",
    "-17",
    "\"quoted\"",
    "a:b:c",
    "tab\there",
    "~ ~\\n",
    " leading and trailing ",
    "\u{1b}[31mred\u{1b}[0m",
    "^[[31m",
    "bell\u{7}nul\u{0}del\u{7f}",
    "\\t\\n\\x1b",
];

/// Code points that tools like to treat specially (all of them are ordinary characters to FML): C0 and C1
/// controls other than CR / LF, bidi and other format controls, zero-width and invisible characters, line
/// and paragraph separators, BOM, soft hyphen, combining marks, variation selectors, tag characters,
/// private use, noncharacters, the neighbours of the surrogate range, replacement and object-replacement
/// characters, fillers, the last code point.
pub const SPECIAL_CODEPOINTS: [u32; 96] = [
    0x00, 0x01, 0x07, 0x08, 0x09, 0x0b, 0x0c, 0x0e, 0x1a, 0x1b, 0x1f, 0x7f, 0x80, 0x84, 0x85, 0x8d, 0x90, 0x9b, 0x9c, 0x9f, 0xa0, 0xad, 0x300, 0x301, 0x34f, 0x36f, 0x61c, 0x70f, 0x115f, 0x1160, 0x17b4, 0x180e,
    0x200b, 0x200c, 0x200d, 0x200e, 0x200f, 0x2028, 0x2029, 0x202a, 0x202b, 0x202c, 0x202d, 0x202e, 0x202f, 0x205f, 0x2060, 0x2061, 0x2062, 0x2063, 0x2064, 0x2066, 0x2067, 0x2068, 0x2069, 0x206a, 0x206f, 0x2400,
    0x3000, 0x3164, 0xd7ff, 0xe000, 0xf8ff, 0xfdd0, 0xfe00, 0xfe0f, 0xfeff, 0xffa0, 0xfff9, 0xfffa, 0xfffb, 0xfffc, 0xfffd, 0xfffe, 0xffff, 0x10000, 0x1d173, 0x1d17a, 0x1f3fb, 0x1f9b0, 0x1fffe, 0x1ffff,
    0x2fffe, 0xe0001, 0xe0020, 0xe0041, 0xe007f, 0xe0100, 0xe01ef, 0xf0000, 0xffffd, 0xfffff, 0x100000, 0x10fffd, 0x10fffe, 0x10ffff,
];

pub fn special_char(rng: &mut Rng) -> char {
    char::from_u32(SPECIAL_CODEPOINTS[rng.below(SPECIAL_CODEPOINTS.len())]).unwrap_or('\u{fffd}')
}

pub struct Opts {
    /// allow raw CR / LF inside string constants (not for C17)
    pub line_breaks: bool,
    pub big: bool,
}

fn random_string(rng: &mut Rng, o: &Opts) -> String {
    match rng.below(14) {
        // one to four special code points among a few letters (never CR / LF: `line_breaks` governs those)
        12 | 13 => {
            let mut s = String::new();
            for _ in 0..(1 + rng.below(8)) {
                if rng.coin() {
                    s.push(special_char(rng));
                } else {
                    s.push(char::from_u32(0x61 + rng.below(26) as u32).unwrap());
                }
            }
            s
        }
        0..=6 => STRINGS[rng.below(STRINGS.len())].to_string(),
        7 => {
            // random unicode, any length up to 40
            let n = rng.below(40);
            let mut s = String::new();
            for _ in 0..n {
                let c = match rng.below(6) {
                    0 => char::from_u32(0x20 + rng.below(0x5f) as u32).unwrap(),
                    1 => char::from_u32(0xa1 + rng.below(0x500) as u32).unwrap_or('¿'),
                    2 => char::from_u32(0x4e00 + rng.below(0x1000) as u32).unwrap_or('中'),
                    3 => char::from_u32(0x1f600 + rng.below(0x40) as u32).unwrap_or('😀'),
                    4 => ['"', '#', ':', '~', '\\', '\'', '\t', ' ', '\u{1b}', '\u{0}', '\u{1}', '\u{7}', '\u{8}', '\u{b}', '\u{c}', '\u{7f}', '^', '[', '\u{85}', '\u{2028}'][rng.below(20)],
                    _ => char::from_u32(0x61 + rng.below(26) as u32).unwrap(),
                };
                s.push(c);
            }
            s
        }
        8 => {
            // lengths around the 255/256 boundary, multi-byte so chars != bytes
            let n = 250 + rng.below(12);
            let mut s = String::new();
            while s.len() < n {
                s.push(if rng.coin() { 'é' } else { 'q' });
            }
            s
        }
        9 if o.big => {
            // beyond 65535 bytes
            let n = 65530 + rng.below(20);
            let mut s = String::with_capacity(n + 4);
            while s.len() < n {
                s.push(if rng.chance(1, 50) { '語' } else { 'z' });
            }
            s
        }
        10 if o.line_breaks => format!("line1\nline2\r\n{}", rng.below(100)),
        _ => format!("s{}", rng.below(1000)),
    }
}

/// Build a structurally valid program.
pub fn structural(rng: &mut Rng, o: &Opts) -> Prog {
    let mut consts: Vec<Const> = Vec::new();
    // phase 1: leaf constants
    let leaf_max = if o.big && rng.chance(1, 6) { 700 } else { 30 };
    let n_leaf = 2 + rng.below(leaf_max);
    for _ in 0..n_leaf {
        consts.push(match rng.below(10) {
            0 | 1 => Const::Int(rng.i32_interesting()),
            2 => Const::Null,
            3 => Const::Bool(rng.coin()),
            _ => Const::Str(random_string(rng, o)),
        });
    }
    // values that look like parts of the encoding: an integer equal to its own index, integers whose
    // bytes are tags, counts or line breaks, strings made of tag bytes or of something that reads
    // like a length prefix
    if rng.coin() {
        for _ in 0..(1 + rng.below(4)) {
            let c = match rng.below(8) {
                0 => Const::Int(consts.len() as i32),
                1 => Const::Int(consts.len() as i32 + 1),
                2 => Const::Int([0x0302_0100, 0x0606_0606, 0x0000_0003, 0x0300_0000, 0x0a0d_0a0d, 0x00ff_00ff, 0x0001_0000, 0x0000_ffff][rng.below(8)]),
                3 => Const::Int(-([1, 2, 3, 4, 5, 6, 256, 65536][rng.below(8)])),
                4 => Const::Str("\u{0}\u{1}\u{2}\u{3}\u{4}\u{5}\u{6}".into()),
                5 => Const::Str("\u{3}\u{0}\u{0}\u{0}abc".into()),
                6 => Const::Str(format!("#{}", consts.len())),
                _ => Const::Str(format!("{}", consts.len())),
            };
            consts.push(c);
        }
    }
    // make sure there is at least one of each leaf kind
    consts.push(Const::Str(random_string(rng, o)));
    consts.push(Const::Int(rng.i32_interesting()));
    consts.push(Const::Null);
    consts.push(Const::Bool(rng.coin()));
    let strs: Vec<u16> = consts.iter().enumerate().filter(|(_, c)| matches!(c, Const::Str(_))).map(|(i, _)| i as u16).collect();
    let lits: Vec<u16> =
        consts.iter().enumerate().filter(|(_, c)| matches!(c, Const::Int(_) | Const::Null | Const::Bool(_))).map(|(i, _)| i as u16).collect();
    // phase 2: slots
    let n_slots = rng.below(6);
    let mut slots: Vec<u16> = Vec::new();
    for _ in 0..n_slots {
        consts.push(Const::Slot(*rng.pick(&strs)));
        slots.push((consts.len() - 1) as u16);
    }
    // label names must be unique program-wide: dedicated string constants
    let mut label_counter = 0usize;
    // phase 3: methods and classes, interleaved so that classes can refer to earlier methods
    let meth_max = if o.big && rng.chance(1, 8) { 300 } else { 6 };
    let n_methods = 1 + rng.below(meth_max);
    let mut methods: Vec<u16> = Vec::new();
    let mut classes: Vec<u16> = Vec::new();
    for _ in 0..n_methods {
        // maybe a class first
        if rng.chance(1, 3) {
            let k = rng.below(5);
            let mut ms = Vec::new();
            for _ in 0..k {
                if !methods.is_empty() && rng.coin() {
                    ms.push(*rng.pick(&methods));
                } else if !slots.is_empty() {
                    ms.push(*rng.pick(&slots));
                }
            }
            consts.push(Const::Class(ms));
            classes.push((consts.len() - 1) as u16);
        }
        let arity = match rng.below(8) {
            0 => 255,
            1 => 0,
            _ => rng.below(4),
        } as u8;
        let locals = match rng.below(8) {
            0 => 65535,
            1 => 256 + rng.below(10),
            _ => rng.below(5),
        } as u16;
        let len = match rng.below(10) {
            0 => 0,
            1 if o.big => 300 + rng.below(50),
            _ => rng.below(14),
        };
        let mut code = Vec::new();
        let mut my_labels: Vec<u16> = Vec::new();
        for _ in 0..len {
            let ins = match rng.below(18) {
                0 => {
                    label_counter += 1;
                    consts.push(Const::Str(match rng.below(8) {
                        0 => format!("L{} ž", label_counter),
                        1 => format!("k:{}", u64::MAX - (label_counter as u64 - 1)),
                        2 => format!("{}", u64::MAX - (label_counter as u64 - 1)),
                        3 => format!("L{}:{}", label_counter, [4294967295u64, 65535, 2147483647, 9223372036854775807][label_counter % 4]),
                        _ => format!("L{}", label_counter),
                    }));
                    let li = (consts.len() - 1) as u16;
                    my_labels.push(li);
                    Ins::Label(li)
                }
                1 => Ins::Lit(*rng.pick(&lits)),
                2 => Ins::Print(*rng.pick(&strs), rng.below(256) as u8),
                3 => Ins::Array,
                4 => {
                    if classes.is_empty() {
                        Ins::Drop
                    } else {
                        Ins::Object(*rng.pick(&classes))
                    }
                }
                5 => Ins::GetSlot(*rng.pick(&strs)),
                6 => Ins::SetSlot(*rng.pick(&strs)),
                7 => Ins::CallSlot(*rng.pick(&strs), 1 + rng.below(255) as u8),
                8 => Ins::Call(*rng.pick(&strs), rng.below(256) as u8),
                9 => Ins::SetLocal(if rng.chance(1, 4) { 256 + rng.below(60000) as u16 } else { rng.below(4) as u16 }),
                10 => Ins::GetLocal(if rng.chance(1, 4) { 256 + rng.below(60000) as u16 } else { rng.below(4) as u16 }),
                11 => Ins::SetGlobal(*rng.pick(&strs)),
                12 => Ins::GetGlobal(*rng.pick(&strs)),
                13 => {
                    if my_labels.is_empty() {
                        Ins::Drop
                    } else {
                        Ins::Branch(*rng.pick(&my_labels))
                    }
                }
                14 => {
                    if my_labels.is_empty() {
                        Ins::Return
                    } else {
                        Ins::Goto(*rng.pick(&my_labels))
                    }
                }
                15 => Ins::Return,
                _ => Ins::Drop,
            };
            code.push(ins);
        }
        consts.push(Const::Method { name: *rng.pick(&strs), arity, locals, code });
        methods.push((consts.len() - 1) as u16);
    }
    if rng.chance(1, 3) {
        consts.push(Const::Class(vec![]));
    }
    // globals: distinct slots / methods
    let mut globals: Vec<u16> = Vec::new();
    for s in &slots {
        if rng.coin() {
            globals.push(*s);
        }
    }
    for m in &methods {
        if rng.chance(1, 3) {
            globals.push(*m);
        }
    }
    rng.shuffle(&mut globals);
    let entry = *rng.pick(&methods);
    Prog { consts, globals, entry }
}
