//! C02 (well-formed, stack-balanced compiler output), C03 (serialize /
//! deserialize inverse), C04 (documented binary layout), C17 (disassembly).

use serde_json::json;

use super::super::bcfmt::{self, Const, Ins, Prog};
use super::super::bcvalid;
use super::super::conv;
use super::super::gen;
use super::super::listing;
use super::super::printer;
use super::super::progs;
use super::super::refvm;
use super::super::rng::{hash_bytes, Rng};
use super::super::{altcc, b64, real, Ctx, Report};
use super::common::*;

fn ast_sources(ctx: &Ctx, label: &str, index: u64) -> Option<(crate::parser::AST, String, String)> {
    // alternate between the well-behaved generator and the unrestricted one
    let mut rng = ctx.rng(label, index);
    if index % 3 == 2 {
        let ast = gen::wild(&mut rng, 60, 4, true);
        let src = printer::to_source(&ast).ok()?;
        Some((ast, src, format!("wild#{}", index)))
    } else {
        let c = well_behaved_case(&mut rng, index)?;
        Some((c.ast, c.src, c.origin))
    }
}

// ---------------------------------------------------------------------------------------------
// C02

fn c02_one(rep: &mut Report, origin: &str, src: &str, ast: &crate::parser::AST) {
    rep.evaluations += 1;
    let prog = match real::compile(ast) {
        Ok(p) => p,
        Err(_) => {
            rep.skip("compiler-rejects-statically");
            return;
        }
    };
    // in-memory program: method ranges must partition the code
    let (mem, ranges) = match conv::prog_from_program(&prog) {
        Ok(x) => x,
        Err(e) => {
            rep.violation("C02:method-range", format!("{}: method range not inside code: {}", origin, e), json!({"check":"C02","src":src}));
            return;
        }
    };
    for is in bcvalid::check_partition(&ranges, prog.code.length()) {
        rep.violation(&format!("C02:{}", is.class), format!("{}: {}", origin, is.detail), json!({"check":"C02","src":src}));
    }
    let bytes = match real::serialize(&prog) {
        Ok(b) => b,
        Err(e) => {
            rep.violation("C02:serialize-fails", format!("{}: compiled program cannot be serialized: {}", origin, e), json!({"check":"C02","src":src}));
            return;
        }
    };
    let decoded = match bcfmt::read(&bytes) {
        Ok(p) => p,
        Err(e) => {
            rep.violation("C02:undecodable", format!("{}: emitted file is not decodable: {}", origin, e), json!({"check":"C02","src":src}));
            return;
        }
    };
    if decoded != mem {
        rep.inconsistency(format!("{}: decoded file differs from in-memory program (C03/C04 territory)", origin));
    }
    let v = bcvalid::validate(&decoded);
    rep.conclusive += 1;
    rep.bump_n("c02", "methods", v.n_methods as u64);
    rep.bump_n("c02", "labels", v.n_labels as u64);
    rep.bump_n("c02", "jumps", v.n_jumps as u64);
    rep.bump_n("c02", "instructions", decoded.n_instructions() as u64);
    rep.bump("c02-entry-end-depth", &format!("{:?}", v.entry_end_depth));
    rep.bump("c02-max-depth", &format!("{}", v.max_depth.min(12)));
    if decoded.n_instructions() >= 12 && v.n_methods >= 1 && (v.n_jumps > 0 || v.n_methods > 1) {
        rep.nontrivial(hash_bytes(&bytes));
    }
    for c in &decoded.consts {
        if let Const::Method { code, .. } = c {
            for i in code {
                rep.bump("c02-opcodes", i.mnemonic());
            }
        }
    }
    let mut seen = std::collections::HashSet::new();
    for is in &v.issues {
        if seen.insert(is.class) {
            rep.violation(
                &format!("C02:{}", is.class),
                format!("{}: {}", origin, is.detail),
                json!({"check":"C02","src":src,"issue":is.detail,"bytes_b64": if bytes.len() < 4000 { b64(&bytes) } else { String::new() }}),
            );
        }
    }
    if rep.samples.len() < 3 && decoded.n_instructions() > 10 && decoded.n_instructions() < 60 {
        rep.sample(json!({"origin": origin, "src": src, "instructions": decoded.n_instructions(), "entry_end_depth": v.entry_end_depth, "max_depth": v.max_depth}));
    }
}

pub fn c02(ctx: &Ctx, rep: &mut Report) {
    if let Some(r) = &ctx.replay {
        if let Some(src) = r.get("src").and_then(|s| s.as_str()) {
            match real::parse(src) {
                Ok(ast) => c02_one(rep, "replay", src, &ast),
                Err(e) => rep.notes.push(format!("replay source does not parse: {}", e)),
            }
        }
        return;
    }
    // deterministic part: pairwise matrix, stress shapes, in-repo corpus
    let mut k = 0u64;
    for ci in 0..gen::MATRIX_CONSTRUCTS.len() {
        for xi in 0..gen::MATRIX_CONTEXTS.len() {
            k += 1;
            if !ctx.mine(k) {
                continue;
            }
            let (name, src) = gen::matrix_program(ci, xi);
            match real::parse(&src) {
                Ok(ast) => c02_one(rep, &format!("matrix:{}", name), &src, &ast),
                Err(e) => rep.inconsistency(format!("matrix program {} does not parse: {}", name, e)),
            }
        }
    }
    // construct in wrapper in context (a sample in the quick tier)
    let third = if ctx.quick() { 6 } else { 1 };
    for ci in 0..gen::MATRIX_CONSTRUCTS.len() {
        for wi in 0..gen::MATRIX_WRAPPERS.len() {
            for xi in 0..gen::MATRIX_CONTEXTS.len() {
                k += 1;
                if !ctx.mine(k) || (k.wrapping_mul(0x9E37_79B9_7F4A_7C15).wrapping_add(ctx.seed) >> 24) % third != 0 {
                    continue;
                }
                let (name, src) = gen::matrix3_program(ci, wi, xi);
                match real::parse(&src) {
                    Ok(ast) => c02_one(rep, &format!("matrix3:{}", name), &src, &ast),
                    Err(e) => rep.inconsistency(format!("matrix program {} does not parse: {}", name, e)),
                }
            }
        }
    }
    for (name, src) in stress_sources() {
        k += 1;
        if !ctx.mine(k) {
            continue;
        }
        match real::parse(&src) {
            Ok(ast) => c02_one(rep, &format!("stress:{}", name), &src, &ast),
            Err(e) => rep.inconsistency(format!("stress program {} does not parse: {}", name, e)),
        }
    }
    for p in corpus("fml") {
        k += 1;
        if !ctx.mine(k) {
            continue;
        }
        if let Ok(src) = std::fs::read_to_string(&p) {
            if let Ok(ast) = real::parse(&src) {
                c02_one(rep, &format!("corpus:{}", p.display()), &src, &ast);
            } else {
                rep.skip("corpus-file-does-not-parse");
            }
        }
    }
    rep.count("deterministic_cases", rep.evaluations);
    // random part
    let n = ctx.share(400_000, 6_000_000);
    for i in 0..n {
        if i % 256 == 0 && ctx.out_of_time() && i >= n / 20 {
            rep.notes.push(format!("time budget reached after {} of {} random cases", i, n));
            break;
        }
        match ast_sources(ctx, "C02", i) {
            Some((ast, src, origin)) => c02_one(rep, &origin, &src, &ast),
            None => rep.skip("unprintable"),
        }
    }
}

// ---------------------------------------------------------------------------------------------
// C03

fn runs_agree(a: &real::Run, b: &real::Run) -> bool {
    a.out == b.out && a.ok == b.ok && a.capped == b.capped
}

/// `p` is a Program that never came from bytes. `reference` decides whether behaviour may
/// be compared (conforming programs only).
fn c03_one(rep: &mut Report, origin: &str, p: &crate::bytecode::program::Program, replay: serde_json::Value, pool_order: bool) {
    let compare_behaviour = true;
    rep.evaluations += 1;
    let (mem, _) = match conv::prog_from_program(p) {
        Ok(x) => x,
        Err(e) => {
            rep.skip("program-unreadable");
            rep.notes.push(format!("{}: {}", origin, e));
            return;
        }
    };
    let b1 = match real::serialize(p) {
        Ok(b) => b,
        Err(e) => {
            rep.violation("C03:serialize-fails", format!("{}: serialize fails: {}", origin, e), replay);
            return;
        }
    };
    let p2 = match real::load(&b1) {
        Ok(p) => p,
        Err(e) => {
            rep.violation("C03:load-fails", format!("{}: FML cannot load what it wrote: {}", origin, e), replay);
            return;
        }
    };
    let b2 = match real::serialize(&p2) {
        Ok(b) => b,
        Err(e) => {
            rep.violation("C03:reserialize-fails", format!("{}: serializing the loaded program fails: {}", origin, e), replay);
            return;
        }
    };
    rep.conclusive += 1;
    if b1 != b2 {
        let at = b1.iter().zip(b2.iter()).position(|(a, b)| a != b).unwrap_or(b1.len().min(b2.len()));
        rep.violation("C03:not-idempotent", format!("{}: write(load(write(P))) differs from write(P) at byte {} (lengths {} / {})", origin, at, b1.len(), b2.len()), replay.clone());
    }
    match conv::prog_from_program(&p2) {
        Ok((loaded, ranges)) => {
            if loaded != mem {
                let what = describe_diff(&mem, &loaded);
                rep.violation("C03:content-changed", format!("{}: save/load changed the program: {}", origin, what), replay.clone());
            }
            for is in bcvalid::check_partition(&ranges, p2.code.length()) {
                rep.violation(&format!("C03:{}", is.class), format!("{}: after load: {}", origin, is.detail), replay.clone());
            }
        }
        Err(e) => rep.violation("C03:loaded-unreadable", format!("{}: loaded program is broken: {}", origin, e), replay.clone()),
    }
    // the independent reader agrees on the content of the file
    match bcfmt::read(&b1) {
        Ok(d) => {
            if d != mem {
                rep.violation("C03:file-content", format!("{}: file decodes (independently) to a different program: {}", origin, describe_diff(&mem, &d)), replay.clone());
            }
        }
        Err(e) => rep.violation("C03:file-undecodable", format!("{}: file is not decodable: {}", origin, e), replay.clone()),
    }
    // behaviour
    if compare_behaviour {
        let vm = refvm::run_prog(&mem, 200_000);
        // a program that ends by running off the end of the file's last method is only
        // conforming for the pool-order layout; a differently laid out in-memory Program is not
        let conforming = matches!(vm.status, refvm::Status::Halted | refvm::Status::Failed(_)) && !vm.capped && (pool_order || !vm.ran_off_end);
        if conforming {
            let cap = vm.steps * 4 + 10_000;
            let r1 = real::run_stepped(p, cap);
            let r2 = real::run_stepped(&p2, cap);
            rep.count("behaviour_compared", 1);
            if !runs_agree(&r1, &r2) {
                rep.violation(
                    "C03:behaviour-changed",
                    format!("{}: program behaves differently after save/load: before ok={} out={:?}, after ok={} out={:?}", origin, r1.ok, tail(&r1.out), r2.ok, tail(&r2.out)),
                    replay.clone(),
                );
            }
            let ref_ok = vm.status == refvm::Status::Halted;
            if r2.ok != ref_ok || r2.out != vm.out {
                // C05's business; here it only tells us the comparison was meaningful
                rep.count("differs_from_reference_vm", 1);
            }
        } else {
            rep.count("behaviour_not_compared_nonconforming", 1);
        }
    }
    let nm = mem.method_indices().len();
    rep.bump("c03-methods", &format!("{}", nm.min(10)));
    rep.bump("c03-consts", &format!("{}", (mem.consts.len() / 50 * 50).min(1000)));
    if mem.consts.len() >= 6 && nm >= 1 && mem.n_instructions() >= 3 {
        rep.nontrivial(hash_bytes(&b1));
    }
}

fn tail(s: &str) -> String {
    super::super::cli::truncate(s, 200)
}

pub fn describe_diff(a: &Prog, b: &Prog) -> String {
    if a.consts.len() != b.consts.len() {
        return format!("{} constants vs {}", a.consts.len(), b.consts.len());
    }
    for (i, (x, y)) in a.consts.iter().zip(b.consts.iter()).enumerate() {
        if x != y {
            if let (Const::Method { code: c1, .. }, Const::Method { code: c2, .. }) = (x, y) {
                if c1.len() != c2.len() {
                    return format!("method #{} has {} instructions vs {}", i, c1.len(), c2.len());
                }
                for (k, (i1, i2)) in c1.iter().zip(c2.iter()).enumerate() {
                    if i1 != i2 {
                        return format!("method #{} instruction {}: {:?} vs {:?}", i, k, i1, i2);
                    }
                }
            }
            let sx = format!("{:?}", x);
            let sy = format!("{:?}", y);
            return format!("constant #{}: {} vs {}", i, tail(&sx), tail(&sy));
        }
    }
    if a.globals != b.globals {
        return format!("globals {:?} vs {:?}", a.globals, b.globals);
    }
    if a.entry != b.entry {
        return format!("entry {} vs {}", a.entry, b.entry);
    }
    "no difference".into()
}

fn structural_program(rng: &mut Rng, big: bool) -> (Prog, Vec<usize>) {
    let p = progs::structural(rng, &progs::Opts { line_breaks: true, big });
    let mut order = p.method_indices();
    if rng.chance(2, 3) {
        rng.shuffle(&mut order);
    }
    (p, order)
}

pub fn c03(ctx: &Ctx, rep: &mut Report) {
    if let Some(r) = &ctx.replay {
        if let Some(src) = r.get("src").and_then(|s| s.as_str()) {
            if let Ok(ast) = real::parse(src) {
                if let Ok(p) = real::compile(&ast) {
                    c03_one(rep, "replay", &p, r.clone(), true);
                }
            }
        } else if let Some(b) = r.get("prog_b64").and_then(|s| s.as_str()) {
            if let Ok(prog) = bcfmt::read(&super::super::unb64(b)) {
                let order: Vec<usize> = r.get("order").and_then(|o| o.as_array()).map(|a| a.iter().filter_map(|x| x.as_u64().map(|v| v as usize)).collect()).unwrap_or_else(|| prog.method_indices());
                if let Ok(p) = conv::program_from_prog(&prog, &order) {
                    c03_one(rep, "replay", &p, r.clone(), false);
                }
            }
        }
        return;
    }
    let mut k = 0u64;
    // deterministic: stress shapes, corpus, matrix
    let mut det: Vec<(String, String)> = stress_sources();
    for p in corpus("fml") {
        if let Ok(s) = std::fs::read_to_string(&p) {
            det.push((format!("corpus:{}", p.display()), s));
        }
    }
    for ci in 0..gen::MATRIX_CONSTRUCTS.len() {
        for xi in (0..gen::MATRIX_CONTEXTS.len()).step_by(5) {
            det.push(gen::matrix_program(ci, xi));
        }
    }
    for (name, src) in det {
        k += 1;
        if !ctx.mine(k) {
            continue;
        }
        if let Ok(ast) = real::parse(&src) {
            if let Ok(p) = real::compile(&ast) {
                c03_one(rep, &name, &p, json!({"check":"C03","src":src}), true);
            }
        }
    }
    // the property as observed at the CLI: `fml compile -o x.bc` then `fml execute x.bc` vs `fml run`,
    // with files large enough to cross the loader's buffer windows
    if ctx.shard < 6 {
        let dir = ctx.scratch("c03");
        let m = if ctx.quick() { 4 } else { 60 };
        for i in 0..m {
            let mut rng = ctx.rng("C03cli", i);
            let mut src = String::new();
            let kk = 1 + rng.below(4);
            for j in 0..kk {
                let mut f = String::new();
                let len = [50usize, 3000, 8150, 8200, 12000, 30000][rng.below(6)];
                while f.len() < len {
                    f.push(match rng.below(10) {
                        0 => 'ž',
                        1 => '語',
                        _ => (b'a' + ((f.len() + j) % 26) as u8) as char,
                    });
                }
                src.push_str(&format!("print(\"{} ~\\n\", {});\n", f, j));
            }
            if let Some(c) = well_behaved_case(&mut rng, i) {
                src.push_str(&c.src);
            }
            let ast = match real::parse(&src) {
                Ok(a) => a,
                Err(_) => continue,
            };
            let json_ast = match crate::ASTSerializer::JSON.serialize(&ast) {
                Ok(j) => j,
                Err(_) => continue,
            };
            let sf = dir.join(format!("p{}.fml", i));
            let jf = dir.join(format!("p{}.json", i));
            let bf = dir.join(format!("p{}.bc", i));
            if std::fs::write(&sf, &src).is_err() || std::fs::write(&jf, &json_ast).is_err() {
                continue;
            }
            let run = super::super::cli::fml_run_file(&sf);
            let c = super::super::cli::run(super::super::cli::Spec::new(&["compile", jf.to_str().unwrap(), "-o", bf.to_str().unwrap()]));
            rep.evaluations += 1;
            if run.timed_out || c.timed_out || !c.success() {
                rep.skip("cli-staging-unavailable");
                continue;
            }
            let e = super::super::cli::run(super::super::cli::Spec::new(&["execute", bf.to_str().unwrap()]));
            if e.timed_out {
                rep.skip("cli-watchdog");
                continue;
            }
            rep.conclusive += 1;
            rep.count("cli_save_load_runs", 1);
            if e.stdout != run.stdout || e.code != run.code || e.signal != run.signal {
                rep.violation(
                    "C03:cli-save-load",
                    format!("`fml compile -o x.bc` + `fml execute x.bc` ({} byte file) ends with exit={:?} signal={:?} and {} bytes of stdout; `fml run` with exit={:?} and {} bytes: {}", std::fs::metadata(&bf).map(|m| m.len()).unwrap_or(0), e.code, e.signal, e.stdout.len(), run.code, run.stdout.len(), super::super::cli::truncate(&e.err_str(), 200)),
                    json!({"check":"C03","src": if src.len() < 40000 { src.clone() } else { String::new() }, "via":"cli"}),
                );
            }
            let _ = std::fs::remove_file(&sf);
            let _ = std::fs::remove_file(&jf);
            let _ = std::fs::remove_file(&bf);
        }
    }
    let n = ctx.share(150_000, 2_500_000);
    for i in 0..n {
        if i % 256 == 0 && ctx.out_of_time() && i >= n / 20 {
            rep.notes.push(format!("time budget reached after {} of {} random cases", i, n));
            break;
        }
        let mut rng = ctx.rng("C03", i);
        match i % 3 {
            0 => {
                // compiler output
                if let Some((ast, src, origin)) = ast_sources(ctx, "C03src", i) {
                    match real::compile(&ast) {
                        Ok(p) => c03_one(rep, &origin, &p, json!({"check":"C03","src":src}), true),
                        Err(_) => rep.skip("compiler-rejects-statically"),
                    }
                }
                rep.bump("c03-source", "compiler-output");
            }
            1 => {
                // directly built structural program, methods laid out in shuffled order
                let (prog, order) = structural_program(&mut rng, i % 30 == 1);
                let replay = json!({"check":"C03","prog_b64": if prog.consts.len() < 3000 { b64(&bcfmt::write(&prog)) } else { String::new() }, "order": order, "seed_index": i});
                match conv::program_from_prog(&prog, &order) {
                    Ok(p) => c03_one(rep, &format!("structural#{}", i), &p, replay, false),
                    Err(e) => rep.inconsistency(format!("structural#{}: Program::from failed: {}", i, e)),
                }
                rep.bump("c03-source", "structural");
            }
            _ => {
                // executable program from the alternate compiler, built directly
                let mut r2 = ctx.rng("C03alt", i);
                if let Some(c) = well_behaved_case(&mut r2, i) {
                    match altcc::compile(&c.ast, &mut rng) {
                        Ok(prog) => {
                            let mut order = prog.method_indices();
                            rng.shuffle(&mut order);
                            let replay = json!({"check":"C03","prog_b64": b64(&bcfmt::write(&prog)), "order": order, "src": serde_json::Value::Null});
                            match conv::program_from_prog(&prog, &order) {
                                Ok(p) => c03_one(rep, &format!("altcc#{}", i), &p, replay, false),
                                Err(e) => rep.inconsistency(format!("altcc#{}: Program::from failed: {}", i, e)),
                            }
                        }
                        Err(_) => rep.skip("altcc-rejects"),
                    }
                }
                rep.bump("c03-source", "altcc");
            }
        }
        if rep.samples.len() < 2 && i % 3 == 1 {
            let (prog, _) = structural_program(&mut ctx.rng("C03", i), false);
            if prog.consts.len() < 25 {
                rep.sample(json!({"kind":"structural program","dump": prog.dump()}));
            }
        }
    }
}

// ---------------------------------------------------------------------------------------------
// C04

/// Hand-assembled vectors written from the C04 text (not produced by any writer).
fn hex_vectors() -> Vec<(&'static str, Vec<u8>, &'static str)> {
    let v1: Vec<u8> = vec![
        0x03, 0x00, // 3 constants
        0x02, 0x06, 0x00, 0x00, 0x00, b'H', b'e', b'l', b'l', b'o', 0x0a, // string "Hello\n" (raw LF)
        0x02, 0x04, 0x00, 0x00, 0x00, b'm', b'a', b'i', b'n', // string "main"
        0x03, 0x01, 0x00, 0x00, 0x00, 0x00, 0x01, 0x00, 0x00, 0x00, // method name=#1 arity=0 locals=0 len=1
        0x02, 0x00, 0x00, 0x00, // printf #0 0
        0x00, 0x00, // no globals
        0x02, 0x00, // entry #2
    ];
    let v2: Vec<u8> = vec![
        0x04, 0x00, // 4 constants
        0x00, 0x78, 0x56, 0x34, 0x12, // int 0x12345678
        0x02, 0x02, 0x00, 0x00, 0x00, b'~', 0x0a, // "~\n"
        0x02, 0x01, 0x00, 0x00, 0x00, b'm', // "m"
        0x03, 0x02, 0x00, 0x00, 0x00, 0x00, 0x02, 0x00, 0x00, 0x00, // method name=#2 arity=0 locals=0 len=2
        0x01, 0x00, 0x00, // lit #0
        0x02, 0x01, 0x00, 0x01, // printf #1 1
        0x00, 0x00, 0x03, 0x00,
    ];
    // locals u16 = 0x0102, local index 0x0101, negative int, bool, null; set/get local, drop
    let v3: Vec<u8> = vec![
        0x06, 0x00, //
        0x00, 0xfe, 0xff, 0xff, 0xff, // int -2
        0x06, 0x01, // bool true
        0x01, // null
        0x02, 0x09, 0x00, 0x00, 0x00, b'~', b' ', b'~', b' ', b'~', b' ', 0xc5, 0xbe, 0x0a, // "~ ~ ~ ž\n" (9 bytes)
        0x02, 0x00, 0x00, 0x00, 0x00, // ""
        0x03, 0x04, 0x00, 0x00, 0x02, 0x01, 0x08, 0x00, 0x00, 0x00, // method name=#4 arity 0 locals 0x0102 len 8
        0x01, 0x00, 0x00, // lit #0
        0x09, 0x01, 0x01, // set local 257
        0x10, // drop
        0x0a, 0x01, 0x01, // get local 257
        0x01, 0x01, 0x00, // lit #1
        0x01, 0x02, 0x00, // lit #2
        0x02, 0x03, 0x00, 0x03, // printf #3 3
        0x10, // drop
        0x00, 0x00, 0x05, 0x00,
    ];
    // global slot, function call, label/branch/goto, object with class, get/set slot, call slot, array, return
    let v4: Vec<u8> = {
        let mut b: Vec<u8> = Vec::new();
        let s = |b: &mut Vec<u8>, t: &str| {
            b.push(0x02);
            b.extend_from_slice(&(t.len() as u32).to_le_bytes());
            b.extend_from_slice(t.as_bytes());
        };
        b.extend_from_slice(&[0x0e, 0x00]); // 14 constants
        s(&mut b, "g"); // 0
        b.extend_from_slice(&[0x04, 0x00, 0x00]); // 1 slot #0
        s(&mut b, "f"); // 2
        b.extend_from_slice(&[0x00, 0x07, 0x00, 0x00, 0x00]); // 3 int 7
        s(&mut b, "x"); // 4
        b.extend_from_slice(&[0x04, 0x04, 0x00]); // 5 slot #4
        b.extend_from_slice(&[0x05, 0x01, 0x00, 0x05, 0x00]); // 6 class [#5]
        s(&mut b, "+"); // 7
        s(&mut b, "L"); // 8
        s(&mut b, "~|~|~\n"); // 9
        b.push(0x01); // 10 null
        // 11 method f: name #2 arity 1 locals 0: get local 0; lit #3; call slot #7 2; return
        b.extend_from_slice(&[0x03, 0x02, 0x00, 0x01, 0x00, 0x00, 0x04, 0x00, 0x00, 0x00]);
        b.extend_from_slice(&[0x0a, 0x00, 0x00, 0x01, 0x03, 0x00, 0x07, 0x07, 0x00, 0x02, 0x0f]);
        s(&mut b, "main"); // 12
        // 13 entry: name #12 arity 0 locals 0
        //   lit #3; call #2 1; set global #0; drop        -> g = f(7) = 14
        //   lit #10; lit #3; object #6; get slot #4        -> 7
        //   lit #3; lit #10; array                          -> [null x7]
        //   get global #0; branch #8; lit #10; drop; label #8
        //   ... stack now: 7, array ; push g -> printf 3
        let code: Vec<u8> = vec![
            0x01, 0x03, 0x00, // lit 7
            0x08, 0x02, 0x00, 0x01, // call f 1
            0x0b, 0x00, 0x00, // set global g
            0x10, // drop
            0x01, 0x0a, 0x00, // lit null (parent)
            0x01, 0x03, 0x00, // lit 7 (field x)
            0x04, 0x06, 0x00, // object #6
            0x05, 0x04, 0x00, // get slot x -> 7
            0x01, 0x03, 0x00, // lit 7 (size)
            0x01, 0x0a, 0x00, // lit null (init)
            0x03, // array
            0x0c, 0x00, 0x00, // get global g
            0x0d, 0x08, 0x00, // branch L (14 is truthy)
            0x01, 0x0a, 0x00, // lit null (skipped)
            0x00, 0x08, 0x00, // label L
            0x0c, 0x00, 0x00, // get global g
            0x02, 0x09, 0x00, 0x03, // printf "~|~|~\n" 3
        ];
        b.extend_from_slice(&[0x03, 0x0c, 0x00, 0x00, 0x00, 0x00]);
        b.extend_from_slice(&(17u32).to_le_bytes());
        b.extend_from_slice(&code);
        b.extend_from_slice(&[0x02, 0x00, 0x01, 0x00, 0x0b, 0x00]); // globals: slot #1, method #11
        b.extend_from_slice(&[0x0d, 0x00]); // entry #13
        b
    };
    vec![
        ("hello", v1, "Hello\n"),
        ("int-endianness", v2, "305419896\n"),
        ("wide-locals", v3, "-2 true null ž\n"),
        ("all-sections", v4, "7|[null, null, null, null, null, null, null]|14\n"),
    ]
}

/// direction 1: a file FML wrote must decode strictly and denote `mem`
fn c04_written(rep: &mut Report, origin: &str, bytes: &[u8], mem: &Prog, replay: serde_json::Value) {
    match bcfmt::read(bytes) {
        Ok(d) => {
            if d != *mem {
                rep.violation("C04:written-content", format!("{}: file written by FML decodes to a different program: {}", origin, describe_diff(mem, &d)), replay);
            } else {
                // and the independent writer produces the very same bytes
                let mine = bcfmt::write(mem);
                if mine != bytes {
                    let at = mine.iter().zip(bytes.iter()).position(|(a, b)| a != b).unwrap_or(mine.len().min(bytes.len()));
                    rep.violation("C04:written-bytes", format!("{}: FML's bytes differ from the documented encoding at offset {} ({} vs {} bytes)", origin, at, bytes.len(), mine.len()), replay);
                }
            }
        }
        Err(e) => rep.violation("C04:written-layout", format!("{}: file written by FML violates the layout: {}", origin, e), replay),
    }
}

/// direction 2: a file in the documented layout must load as the program it denotes
fn c04_loaded(rep: &mut Report, origin: &str, prog: &Prog, replay: serde_json::Value, executable: bool) {
    let bytes = bcfmt::write(prog);
    match real::load(&bytes) {
        Ok(p) => match conv::prog_from_program(&p) {
            Ok((loaded, _)) => {
                if loaded != *prog {
                    rep.violation("C04:loaded-content", format!("{}: FML loads an independently encoded file as a different program: {}", origin, describe_diff(prog, &loaded)), replay.clone());
                }
                if executable {
                    let vm = refvm::run_prog(prog, 300_000);
                    if matches!(vm.status, refvm::Status::Halted | refvm::Status::Failed(_)) && !vm.capped {
                        let r = real::run_stepped(&p, vm.steps * 4 + 10_000);
                        let ref_ok = vm.status == refvm::Status::Halted;
                        rep.count("c04_behaviour_compared", 1);
                        if r.ok != ref_ok || r.out != vm.out {
                            rep.violation(
                                "C04:loaded-behaviour",
                                format!("{}: loaded program behaves unlike the program the file denotes: real ok={} out={:?}; reference ok={} out={:?}", origin, r.ok, tail(&r.out), ref_ok, tail(&vm.out)),
                                replay,
                            );
                        }
                    }
                }
            }
            Err(e) => rep.violation("C04:loaded-broken", format!("{}: loaded program is broken: {}", origin, e), replay),
        },
        Err(e) => rep.violation("C04:load-fails", format!("{}: FML cannot load a file in the documented layout: {}", origin, e), replay),
    }
}

pub fn c04(ctx: &Ctx, rep: &mut Report) {
    // a replay that names a hand-assembled vector or a golden file re-runs that deterministic part
    let replay_fixed = ctx.replay.as_ref().map(|r| r.get("vector").is_some() || r.get("file").is_some() || r.get("via").is_some()).unwrap_or(false);
    if let (Some(r), false) = (&ctx.replay, replay_fixed) {
        if let Some(src) = r.get("src").and_then(|s| s.as_str()) {
            if let Ok(ast) = real::parse(src) {
                if let Ok(p) = real::compile(&ast) {
                    if let (Ok(b), Ok((mem, _))) = (real::serialize(&p), conv::prog_from_program(&p)) {
                        rep.evaluations += 1;
                        rep.conclusive += 1;
                        c04_written(rep, "replay", &b, &mem, r.clone());
                    }
                }
            }
        } else if let Some(b) = r.get("prog_b64").and_then(|s| s.as_str()) {
            if let Ok(prog) = bcfmt::read(&super::super::unb64(b)) {
                rep.evaluations += 1;
                rep.conclusive += 1;
                c04_loaded(rep, "replay", &prog, r.clone(), true);
                if let Ok(p) = conv::program_from_prog(&prog, &prog.method_indices()) {
                    if let Ok(bytes) = real::serialize(&p) {
                        c04_written(rep, "replay", &bytes, &prog, r.clone());
                    }
                }
            }
        }
        return;
    }
    if ctx.shard == 0 {
        // hand-assembled vectors and golden files
        for (name, bytes, expect) in hex_vectors() {
            rep.evaluations += 1;
            rep.conclusive += 1;
            let replay = json!({"check":"C04","vector":name,"bytes_b64":b64(&bytes)});
            match bcfmt::read(&bytes) {
                Err(e) => rep.inconsistency(format!("hex vector {} rejected by the harness's own reader: {}", name, e)),
                Ok(prog) => {
                    if bcfmt::write(&prog) != bytes {
                        rep.inconsistency(format!("hex vector {}: harness writer does not reproduce it", name));
                    }
                    match real::load(&bytes) {
                        Ok(p) => {
                            let r = real::run_stepped(&p, 10_000);
                            if !r.ok || r.out != expect {
                                rep.violation("C04:vector-behaviour", format!("hand-assembled vector {}: expected {:?}, FML prints {:?} ok={} err={}", name, expect, r.out, r.ok, r.err), replay.clone());
                            }
                            match real::serialize(&p) {
                                Ok(b) => {
                                    if b != bytes {
                                        rep.violation("C04:vector-rewrite", format!("hand-assembled vector {}: FML re-writes it differently", name), replay.clone());
                                    }
                                }
                                Err(e) => rep.violation("C04:vector-rewrite", format!("vector {}: serialize fails: {}", name, e), replay.clone()),
                            }
                        }
                        Err(e) => rep.violation("C04:vector-load", format!("hand-assembled vector {}: FML cannot load it: {}", name, e), replay.clone()),
                    }
                    let vm = refvm::run_prog(&prog, 10_000);
                    if vm.out != expect {
                        rep.inconsistency(format!("hex vector {}: reference VM prints {:?}", name, vm.out));
                    }
                    rep.nontrivial(hash_bytes(&bytes));
                }
            }
            rep.bump("c04-source", "hex-vector");
        }
        for p in corpus("bc") {
            if let Ok(bytes) = std::fs::read(&p) {
                rep.evaluations += 1;
                let replay = json!({"check":"C04","file":p.display().to_string()});
                match bcfmt::read(&bytes) {
                    Ok(prog) => {
                        rep.conclusive += 1;
                        rep.nontrivial(hash_bytes(&bytes));
                        c04_loaded(rep, &format!("golden:{}", p.display()), &prog, replay, false);
                    }
                    Err(e) => {
                        // golden files are inputs from the repository, not outputs of this tree:
                        // an undecodable one is reported as a note, not a violation
                        rep.skip("golden-file-not-in-layout");
                        rep.notes.push(format!("{}: {}", p.display(), e));
                    }
                }
                rep.bump("c04-source", "golden-file");
            }
        }
    }
    if replay_fixed && ctx.replay.as_ref().map(|r| r.get("via").is_none()).unwrap_or(false) {
        return;
    }
    let mut k = 0u64;
    for (name, src) in if replay_fixed { vec![] } else { stress_sources() } {
        k += 1;
        if !ctx.mine(k) {
            continue;
        }
        if let Ok(ast) = real::parse(&src) {
            if let Ok(p) = real::compile(&ast) {
                if let (Ok(b), Ok((mem, _))) = (real::serialize(&p), conv::prog_from_program(&p)) {
                    rep.evaluations += 1;
                    rep.conclusive += 1;
                    rep.nontrivial(hash_bytes(&b));
                    c04_written(rep, &format!("stress:{}", name), &b, &mem, json!({"check":"C04","src":src}));
                    c04_loaded(rep, &format!("stress:{}", name), &mem, json!({"check":"C04","src":src}), true);
                    rep.bump("c04-source", "stress");
                }
            }
        }
    }
    let n = if replay_fixed { 0 } else { ctx.share(200_000, 3_000_000) };
    for i in 0..n {
        if i % 256 == 0 && ctx.out_of_time() && i >= n / 20 {
            rep.notes.push(format!("time budget reached after {} of {} random cases", i, n));
            break;
        }
        let mut rng = ctx.rng("C04", i);
        rep.evaluations += 1;
        match i % 3 {
            0 => {
                // direction 1 on compiler output
                if let Some((ast, src, origin)) = ast_sources(ctx, "C04src", i) {
                    match real::compile(&ast) {
                        Ok(p) => {
                            if let (Ok(b), Ok((mem, _))) = (real::serialize(&p), conv::prog_from_program(&p)) {
                                rep.conclusive += 1;
                                if mem.n_instructions() >= 8 {
                                    rep.nontrivial(hash_bytes(&b));
                                }
                                c04_written(rep, &origin, &b, &mem, json!({"check":"C04","src":src}));
                            } else {
                                rep.skip("serialize-or-read-failed");
                            }
                        }
                        Err(_) => rep.skip("compiler-rejects-statically"),
                    }
                }
                rep.bump("c04-source", "compiler-output");
            }
            1 => {
                // both directions on structural programs
                let prog = progs::structural(&mut rng, &progs::Opts { line_breaks: true, big: i % 30 == 1 });
                let replay = json!({"check":"C04","prog_b64": if prog.consts.len() < 3000 { b64(&bcfmt::write(&prog)) } else { String::new() }, "seed_index": i});
                rep.conclusive += 1;
                rep.nontrivial(hash_bytes(&bcfmt::write(&prog)));
                c04_loaded(rep, &format!("structural#{}", i), &prog, replay.clone(), false);
                match conv::program_from_prog(&prog, &prog.method_indices()) {
                    Ok(p) => match real::serialize(&p) {
                        Ok(b) => c04_written(rep, &format!("structural#{}", i), &b, &prog, replay),
                        Err(e) => rep.violation("C04:serialize-fails", format!("structural#{}: serialize fails: {}", i, e), replay),
                    },
                    Err(e) => rep.inconsistency(format!("structural#{}: Program::from failed: {}", i, e)),
                }
                if prog.consts.len() > 256 {
                    rep.bump("c04-forced", "constants>=256");
                }
                if prog.consts.iter().any(|c| matches!(c, Const::Str(s) if s.len() > 255 && s.chars().count() != s.len())) {
                    rep.bump("c04-forced", "multibyte-string>255B");
                }
                if prog.consts.iter().any(|c| matches!(c, Const::Str(s) if s.len() > 65535)) {
                    rep.bump("c04-forced", "string>65535B");
                }
                if prog.consts.iter().any(|c| matches!(c, Const::Method{code,..} if code.len() > 255)) {
                    rep.bump("c04-forced", "method>255-instructions");
                }
                if prog.consts.iter().any(|c| matches!(c, Const::Method{code,..} if code.iter().any(|i| matches!(i, Ins::GetLocal(k) | Ins::SetLocal(k) if *k > 255)))) {
                    rep.bump("c04-forced", "local-index>255");
                }
                rep.bump("c04-source", "structural");
            }
            _ => {
                // direction 2 on executable programs from the alternate compiler
                let mut r2 = ctx.rng("C04alt", i);
                if let Some(c) = well_behaved_case(&mut r2, i) {
                    match altcc::compile(&c.ast, &mut rng) {
                        Ok(prog) => {
                            rep.conclusive += 1;
                            let bytes = bcfmt::write(&prog);
                            if prog.n_instructions() >= 8 {
                                rep.nontrivial(hash_bytes(&bytes));
                            }
                            c04_loaded(rep, &format!("altcc#{}", i), &prog, json!({"check":"C04","prog_b64": b64(&bytes), "src": c.src}), true);
                        }
                        Err(_) => rep.skip("altcc-rejects"),
                    }
                }
                rep.bump("c04-source", "altcc");
            }
        }
    }
    // the real loader: files on disk (buffered reader) and stdin fed in small chunks, with
    // programs large enough to straddle buffer windows
    if ctx.shard < 8 {
        let dir = ctx.scratch("c04");
        let m = if ctx.quick() { 6 } else { 80 };
        for i in 0..m {
            let mut rng = ctx.rng("C04cli", i);
            // executable program with long string constants
            let mut src = String::new();
            let k = 2 + rng.below(4);
            for j in 0..k {
                let mut f = String::new();
                let len = [200usize, 3000, 8100, 8200, 9000, 17000, 40000][rng.below(7)];
                while f.len() < len {
                    f.push(match rng.below(12) {
                        0 => 'é',
                        1 => '語',
                        2 => '👍',
                        _ => (b'a' + (f.len() % 26) as u8) as char,
                    });
                }
                src.push_str(&format!("print(\"{}:{} ~\\n\", {});\n", j, f, j));
            }
            let ast = match real::parse(&src) {
                Ok(a) => a,
                Err(_) => continue,
            };
            let prog = match altcc::compile(&ast, &mut rng) {
                Ok(p) => p,
                Err(_) => continue,
            };
            let bytes = bcfmt::write(&prog);
            let vm = refvm::run_prog(&prog, 100_000);
            if vm.status != refvm::Status::Halted {
                continue;
            }
            let f = dir.join(format!("big{}.bc", i));
            if std::fs::write(&f, &bytes).is_err() {
                continue;
            }
            let replay = json!({"check":"C04","src": if src.len() < 30000 { src.clone() } else { String::new() }, "via": "cli-loader", "file_bytes": bytes.len()});
            let chunk = [1usize, 7, 100, 511, 4096, 8191][rng.below(6)];
            let runs = vec![
                ("execute FILE", super::super::cli::run(super::super::cli::Spec::new(&["execute", f.to_str().unwrap()]))),
                ("execute < chunked stdin", super::super::cli::run_chunked_stdin(super::super::cli::Spec::new(&["execute"]), &bytes, chunk.max(bytes.len() / 400), std::time::Duration::from_micros(150))),
            ];
            for (how, r) in runs {
                rep.evaluations += 1;
                if r.timed_out || r.spawn_error.is_some() {
                    rep.skip("cli-watchdog");
                    continue;
                }
                rep.conclusive += 1;
                rep.count("cli_loader_runs", 1);
                rep.bump("c04-source", "cli-loader");
                if !r.success() || r.out_str() != vm.out {
                    rep.violation(
                        &format!("C04:cli-loader:{}", how.split(' ').next().unwrap_or("")),
                        format!("`fml {}` on a {}-byte file in the documented layout: expected stdout of {} bytes and exit 0; observed exit={:?} signal={:?} stdout {} bytes, stderr {:?}", how, bytes.len(), vm.out.len(), r.code, r.signal, r.stdout.len(), super::super::cli::truncate(&r.err_str(), 200)),
                        replay.clone(),
                    );
                }
            }
            // `fml compile -o FILE` over an existing, longer file must still leave exactly the layout
            if i % 2 == 0 {
                if let Ok(small) = real::parse("print(\"hello\\n\");\n") {
                    if let (Ok(json_ast), Ok(expect)) = (crate::ASTSerializer::JSON.serialize(&small).map_err(|e| e.to_string()), real::compile(&small).and_then(|p| real::serialize(&p))) {
                        let jf = dir.join(format!("small{}.json", i));
                        let of = dir.join(format!("reused{}.bc", i));
                        let _ = std::fs::write(&jf, &json_ast);
                        let _ = std::fs::write(&of, &bytes); // the previous, longer output
                        let c = super::super::cli::run(super::super::cli::Spec::new(&["compile", jf.to_str().unwrap(), "-o", of.to_str().unwrap()]));
                        rep.evaluations += 1;
                        if c.success() {
                            rep.conclusive += 1;
                            let got = std::fs::read(&of).unwrap_or_default();
                            if got != expect {
                                let why = match bcfmt::read(&got) {
                                    Ok(_) => "a different program".to_string(),
                                    Err(e) => e,
                                };
                                rep.violation("C04:output-file-reused", format!("`fml compile -o FILE` over an existing {}-byte file leaves {} bytes instead of {}: {}", bytes.len(), got.len(), expect.len(), why), json!({"check":"C04","via":"cli-output-reuse"}));
                            }
                        }
                        let _ = std::fs::remove_file(&jf);
                        let _ = std::fs::remove_file(&of);
                    }
                }
            }
            // the listing of the same big file through the real CLI
            let d = super::super::cli::run(super::super::cli::Spec::new(&["disassemble", f.to_str().unwrap()]));
            rep.evaluations += 1;
            if !d.timed_out && d.spawn_error.is_none() {
                rep.conclusive += 1;
                match listing::parse(&d.out_str()).and_then(|l| l.to_prog()) {
                    Ok(back) => {
                        if back != prog {
                            rep.violation("C04:cli-loader:disassemble", format!("`fml disassemble` of a {}-byte file shows a different program: {}", bytes.len(), describe_diff(&prog, &back)), replay.clone());
                        }
                    }
                    Err(e) => rep.violation("C04:cli-loader:disassemble", format!("`fml disassemble` of a {}-byte file in the documented layout fails or is unreadable: {} ({})", bytes.len(), e, d.describe()), replay.clone()),
                }
            }
            let _ = std::fs::remove_file(&f);
        }
    }
    if let Some((ast, src, _)) = ast_sources(ctx, "C04sample", 1) {
        if let Ok(p) = real::compile(&ast) {
            if let Ok(b) = real::serialize(&p) {
                rep.sample(json!({"src": src, "file_bytes": b.len(), "first_bytes_hex": b.iter().take(48).map(|x| format!("{:02x}", x)).collect::<Vec<_>>().join(" ")}));
            }
        }
    }
}

// ---------------------------------------------------------------------------------------------
// C17

fn has_line_break(p: &Prog) -> bool {
    p.consts.iter().any(|c| matches!(c, Const::Str(s) if s.contains('\n') || s.contains('\r')))
}

fn c17_one(rep: &mut Report, origin: &str, bytes: &[u8], replay: serde_json::Value) {
    rep.evaluations += 1;
    let decoded = match bcfmt::read(bytes) {
        Ok(d) => d,
        Err(_) => {
            rep.skip("file-not-decodable");
            return;
        }
    };
    if has_line_break(&decoded) {
        rep.skip("string-with-line-break");
        return;
    }
    let p = match real::load(bytes) {
        Ok(p) => p,
        Err(_) => {
            rep.skip("fml-cannot-load");
            return;
        }
    };
    let text = match real::disassemble(&p) {
        Ok(t) => t,
        Err(e) => {
            rep.violation("C17:disassemble-fails", format!("{}: disassembly fails: {}", origin, e), replay);
            return;
        }
    };
    rep.conclusive += 1;
    match listing::parse(&text) {
        Ok(l) => match l.to_prog() {
            Ok(back) => {
                if back != decoded {
                    rep.violation("C17:listing-differs", format!("{}: listing denotes a different program: {}", origin, describe_diff(&decoded, &back)), replay);
                }
            }
            Err(e) => rep.violation("C17:listing-ranges", format!("{}: method ranges in the listing do not determine the methods: {}", origin, e), replay),
        },
        Err(e) => rep.violation("C17:listing-unreadable", format!("{}: listing cannot be read back: {}", origin, e), replay),
    }
    if decoded.consts.len() >= 5 && decoded.n_instructions() >= 3 {
        rep.nontrivial(hash_bytes(bytes));
    }
    for c in &decoded.consts {
        if let Const::Method { code, .. } = c {
            for i in code {
                rep.bump("c17-opcodes", i.mnemonic());
            }
        }
        rep.bump(
            "c17-constants",
            match c {
                Const::Int(_) => "int",
                Const::Null => "null",
                Const::Str(_) => "string",
                Const::Method { .. } => "method",
                Const::Slot(_) => "slot",
                Const::Class(_) => "class",
                Const::Bool(_) => "bool",
            },
        );
    }
    if rep.samples.len() < 2 && text.len() < 1500 && decoded.n_instructions() > 4 {
        rep.sample(json!({"origin": origin, "listing": text}));
    }
}

pub fn c17(ctx: &Ctx, rep: &mut Report) {
    if let Some(r) = &ctx.replay {
        if let Some(b) = r.get("bytes_b64").and_then(|s| s.as_str()) {
            c17_one(rep, "replay", &super::super::unb64(b), r.clone());
        } else if let Some(src) = r.get("src").and_then(|s| s.as_str()) {
            if let Ok(ast) = real::parse(src) {
                if let Ok(p) = real::compile(&ast) {
                    if let Ok(b) = real::serialize(&p) {
                        c17_one(rep, "replay", &b, r.clone());
                    }
                }
            }
        } else if let Some(f) = r.get("file").and_then(|s| s.as_str()) {
            if let Ok(bytes) = std::fs::read(f) {
                c17_one(rep, "replay", &bytes, r.clone());
            }
        }
        return;
    }
    let mut k = 0u64;
    for p in corpus("bc") {
        k += 1;
        if !ctx.mine(k) {
            continue;
        }
        if let Ok(bytes) = std::fs::read(&p) {
            c17_one(rep, &format!("golden:{}", p.display()), &bytes, json!({"check":"C17","file":p.display().to_string()}));
        }
    }
    for (name, src) in stress_sources() {
        k += 1;
        if !ctx.mine(k) {
            continue;
        }
        if let Ok(ast) = real::parse(&src) {
            if let Ok(p) = real::compile(&ast) {
                if let Ok(b) = real::serialize(&p) {
                    c17_one(rep, &format!("stress:{}", name), &b, json!({"check":"C17","src":src}));
                }
            }
        }
    }
    // CLI sample (shard 0): real `fml disassemble` with file and stdin input
    if ctx.shard == 0 {
        let dir = ctx.scratch("c17");
        let n_cli = if ctx.quick() { 12 } else { 200 };
        for i in 0..n_cli {
            let mut rng = ctx.rng("C17cli", i);
            let prog = if i % 2 == 0 {
                progs::structural(&mut rng, &progs::Opts { line_breaks: false, big: false })
            } else {
                match well_behaved_case(&mut rng, i).and_then(|c| real::compile(&c.ast).ok()).and_then(|p| conv::prog_from_program(&p).ok()) {
                    Some((p, _)) => p,
                    None => continue,
                }
            };
            if has_line_break(&prog) {
                continue;
            }
            let bytes = bcfmt::write(&prog);
            let f = dir.join(format!("p{}.bc", i));
            if std::fs::write(&f, &bytes).is_err() {
                continue;
            }
            // by file, on stdin, and by a path that is not a regular file (/dev/stdin behind a pipe, a named pipe, /proc/self/fd/0)
            let run = match i % 6 {
                0 | 1 => super::super::cli::run(super::super::cli::Spec::new(&["disassemble", f.to_str().unwrap()])),
                2 => super::super::cli::run(super::super::cli::Spec::new(&["disassemble"]).stdin(&bytes)),
                n => match super::super::cli::run_input_not_a_file((n - 3) as usize, &["disassemble"], &bytes, &[], &dir, "dis") {
                    Some(r) => r,
                    None => super::super::cli::run(super::super::cli::Spec::new(&["disassemble"]).stdin(&bytes)),
                },
            };
            rep.bump("c17-cli-input", ["file", "file", "stdin", "/dev/stdin behind a pipe", "named pipe", "/proc/self/fd/0"][(i % 6) as usize]);
            rep.evaluations += 1;
            if run.timed_out || run.spawn_error.is_some() {
                rep.skip("cli-watchdog");
                continue;
            }
            rep.count("cli_runs", 1);
            let replay = json!({"check":"C17","bytes_b64": b64(&bytes), "via": "cli"});
            if !run.success() {
                rep.violation("C17:cli-fails", format!("fml disassemble fails on a valid file: {}", run.describe()), replay);
                continue;
            }
            rep.conclusive += 1;
            match listing::parse(&run.out_str()).and_then(|l| l.to_prog()) {
                Ok(back) => {
                    if back != prog {
                        rep.violation("C17:cli-listing-differs", format!("CLI listing denotes a different program: {}", describe_diff(&prog, &back)), replay);
                    }
                }
                Err(e) => rep.violation("C17:cli-listing-unreadable", format!("CLI listing cannot be read back: {}", e), replay),
            }
            let _ = std::fs::remove_file(&f);
        }
    }
    let n = ctx.share(250_000, 3_000_000);
    for i in 0..n {
        if i % 256 == 0 && ctx.out_of_time() && i >= n / 20 {
            rep.notes.push(format!("time budget reached after {} of {} random cases", i, n));
            break;
        }
        let mut rng = ctx.rng("C17", i);
        if i % 2 == 0 {
            let prog = progs::structural(&mut rng, &progs::Opts { line_breaks: false, big: i % 40 == 0 });
            let bytes = bcfmt::write(&prog);
            let replay = json!({"check":"C17","bytes_b64": if bytes.len() < 400_000 { b64(&bytes) } else { String::new() }, "seed_index": i});
            c17_one(rep, &format!("structural#{}", i), &bytes, replay);
        } else if let Some((ast, src, origin)) = ast_sources(ctx, "C17src", i) {
            match real::compile(&ast).and_then(|p| real::serialize(&p)) {
                Ok(b) => c17_one(rep, &origin, &b, json!({"check":"C17","src":src})),
                Err(_) => rep.skip("compiler-rejects-statically"),
            }
        }
    }
}
