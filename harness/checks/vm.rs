//! C05 (VM gives conforming bytecode its documented semantics) and
//! C08 (serialization is complete however the sink chunks writes).

use serde_json::json;

use crate::bytecode::serializable::Serializable;

use super::super::bcfmt::{self, Const, Ins, Prog};
use super::super::lockstep;
use super::super::progs;
use super::super::refsem::{self, Res};
use super::super::refvm::{self, Status};
use super::super::rng::hash_bytes;
use super::super::sinks::{Fault, Sink};
use super::super::{altcc, b64, cli, conv, real, unb64, Ctx, Report};
use super::common::*;

// ---------------------------------------------------------------------------------------------
// C05

fn opcode_names() -> [&'static str; 17] {
    ["label", "lit", "printf", "array", "object", "get slot", "set slot", "call slot", "call", "set local", "get local", "set global", "get global", "branch", "goto", "return", "drop"]
}

/// Load `prog` (encoded by the independent writer) into FML and run it under the shadow.
fn c05_file(rep: &mut Report, origin: &str, prog: &Prog, cap: u64, replay: serde_json::Value, expect: Option<(&str, bool)>) {
    rep.evaluations += 1;
    let bytes = bcfmt::write(prog);
    let loaded = match real::load(&bytes) {
        Ok(p) => p,
        Err(e) => {
            rep.violation("C05:load", format!("{}: FML cannot load a conforming file: {}", origin, e), replay);
            return;
        }
    };
    let l = lockstep::run(&loaded, prog, cap);
    match &l.ref_status {
        Status::NonConforming(_) => {
            rep.skip("non-conforming");
            return;
        }
        Status::Ambiguous(_) => {
            rep.skip("ambiguous");
            return;
        }
        _ => {}
    }
    if l.capped {
        rep.skip("step-cap");
        return;
    }
    rep.conclusive += 1;
    rep.count("shadowed_instructions", l.steps);
    for (i, n) in l.opcode_hist.iter().enumerate() {
        if *n > 0 {
            rep.bump_n("c05-opcodes-executed", opcode_names()[i], *n);
        }
    }
    for (k, n) in &l.dispatch_hist {
        rep.bump_n("c05-dispatch", k, *n);
    }
    if l.steps >= 8 {
        rep.nontrivial(hash_bytes(&bytes));
    }
    if let Some(d) = &l.divergence {
        let sig = format!("C05:diverge:{}", d.split(' ').skip(1).take(1).collect::<Vec<_>>().join(""));
        rep.violation(&sig, format!("{}: real VM diverges from the documented machine: {}", origin, d), replay.clone());
        return;
    }
    if let Some(c) = &l.depth_conflict {
        // a guard on the static validator, not a property of FML
        rep.count("dynamic_depth_conflicts", 1);
        let _ = c;
    }
    // FML's own fetch loop must agree with the stepped run
    let n = real::run_native(&loaded);
    let ref_ok = l.ref_status == Status::Halted;
    if n.ok != ref_ok || n.out != l.out {
        rep.violation(
            "C05:fetch-loop",
            format!("{}: evaluate_with gives ok={} out={:?}; the documented machine gives ok={} out={:?}", origin, n.ok, cli::truncate(&n.out, 200), ref_ok, cli::truncate(&l.out, 200)),
            replay.clone(),
        );
    }
    if let Some((out, ok)) = expect {
        if l.out != out || ref_ok != ok {
            rep.inconsistency(format!("{}: reference VM (ok={} out={:?}) differs from the source-level reference (ok={} out={:?})", origin, ref_ok, cli::truncate(&l.out, 200), ok, cli::truncate(out, 200)));
        }
    }
}

#[derive(Clone, Copy, Debug)]
enum RecvK {
    Null,
    Int(i32),
    Bool(bool),
    Array,
    Object,
    ObjExt(u8),
}

#[derive(Clone, Copy, Debug)]
enum ArgK {
    Null,
    Int(i32),
    Bool(bool),
    Array,
    Object,
}

struct Asm {
    consts: Vec<Const>,
    code: Vec<Ins>,
}

impl Asm {
    fn c(&mut self, c: Const) -> u16 {
        if let Some(i) = self.consts.iter().position(|x| *x == c) {
            return i as u16;
        }
        self.consts.push(c);
        (self.consts.len() - 1) as u16
    }
    fn lit(&mut self, c: Const) {
        let i = self.c(c);
        self.code.push(Ins::Lit(i));
    }
    fn push_array(&mut self) {
        self.lit(Const::Int(2));
        self.lit(Const::Int(0));
        self.code.push(Ins::Array);
    }
    fn push_object(&mut self, parent: Option<Const>) {
        match parent {
            None => self.lit(Const::Null),
            Some(c) => self.lit(c),
        }
        let cl = self.c(Const::Class(vec![]));
        self.code.push(Ins::Object(cl));
    }
    fn recv(&mut self, r: RecvK) {
        match r {
            RecvK::Null => self.lit(Const::Null),
            RecvK::Int(i) => self.lit(Const::Int(i)),
            RecvK::Bool(b) => self.lit(Const::Bool(b)),
            RecvK::Array => self.push_array(),
            RecvK::Object => self.push_object(None),
            RecvK::ObjExt(0) => self.push_object(Some(Const::Int(6))),
            RecvK::ObjExt(1) => self.push_object(Some(Const::Bool(true))),
            RecvK::ObjExt(2) => {
                // object extending an array
                self.push_array();
                let cl = self.c(Const::Class(vec![]));
                self.code.push(Ins::Object(cl));
            }
            RecvK::ObjExt(_) => {
                // object extending an object extending an int
                self.push_object(Some(Const::Int(6)));
                let cl = self.c(Const::Class(vec![]));
                self.code.push(Ins::Object(cl));
            }
        }
    }
    fn arg(&mut self, a: ArgK) {
        match a {
            ArgK::Null => self.lit(Const::Null),
            ArgK::Int(i) => self.lit(Const::Int(i)),
            ArgK::Bool(b) => self.lit(Const::Bool(b)),
            ArgK::Array => self.push_array(),
            ArgK::Object => self.push_object(None),
        }
    }
}

fn table_program(r: RecvK, name: &str, args: &[ArgK]) -> Prog {
    let mut a = Asm { consts: vec![], code: vec![] };
    a.recv(r);
    for x in args {
        a.arg(*x);
    }
    let n = a.c(Const::Str(name.to_owned()));
    a.code.push(Ins::CallSlot(n, (args.len() + 1) as u8));
    let f = a.c(Const::Str("~".into()));
    a.code.push(Ins::Print(f, 1));
    let nm = a.c(Const::Str("entry".into()));
    let code = std::mem::take(&mut a.code);
    a.consts.push(Const::Method { name: nm, arity: 0, locals: 0, code });
    let entry = (a.consts.len() - 1) as u16;
    Prog { consts: a.consts, globals: vec![], entry }
}

pub fn special_programs() -> Vec<(&'static str, Prog, &'static str, bool)> {
    let s = |t: &str| Const::Str(t.to_owned());
    let mut v = Vec::new();
    // global read before any assignment is null; set global copies without popping
    v.push((
        "global-before-assignment",
        Prog {
            consts: vec![s("g"), Const::Slot(0), s("~|~|~\n"), Const::Int(4), s("e"), Const::Method { name: 4, arity: 0, locals: 0, code: vec![Ins::GetGlobal(0), Ins::Lit(3), Ins::SetGlobal(0), Ins::GetGlobal(0), Ins::Print(2, 3)] }],
            globals: vec![1],
            entry: 5,
        },
        "null|4|4\n",
        true,
    ));
    // entry first in the file, ending in return; function after it; locals start as null
    v.push((
        "entry-first-with-return",
        Prog {
            consts: vec![
                s("main"),
                s("f"),
                s("~ ~\n"),
                Const::Int(9),
                Const::Method { name: 0, arity: 0, locals: 2, code: vec![Ins::GetLocal(1), Ins::Lit(3), Ins::Call(1, 1), Ins::Print(2, 2), Ins::Return] },
                Const::Method { name: 1, arity: 1, locals: 1, code: vec![Ins::GetLocal(1), Ins::Drop, Ins::GetLocal(0), Ins::Return] },
            ],
            globals: vec![5],
            entry: 4,
        },
        "null 9\n",
        true,
    ));
    // label names with blanks / unicode; branch on false and null falls through, on 0 jumps
    v.push((
        "branch-truthiness",
        Prog {
            consts: vec![
                s("a label"),
                s("ž:1"),
                s("L3"),
                Const::Bool(false),
                Const::Null,
                Const::Int(0),
                s("F"),
                s("N"),
                s("Z"),
                s("main"),
                Const::Method {
                    name: 9,
                    arity: 0,
                    locals: 0,
                    code: vec![
                        Ins::Lit(3),
                        Ins::Branch(0),
                        Ins::Print(6, 0),
                        Ins::Drop,
                        Ins::Label(0),
                        Ins::Lit(4),
                        Ins::Branch(1),
                        Ins::Print(7, 0),
                        Ins::Drop,
                        Ins::Label(1),
                        Ins::Lit(5),
                        Ins::Branch(2),
                        Ins::Print(8, 0),
                        Ins::Drop,
                        Ins::Label(2),
                        Ins::Lit(4),
                    ],
                },
            ],
            globals: vec![],
            entry: 10,
        },
        "FN",
        true,
    ));
    // object: first slot takes the deepest operand; set slot leaves the value; print splices deepest first
    v.push((
        "object-slot-order",
        Prog {
            consts: vec![
                s("a"),
                s("b"),
                Const::Slot(0),
                Const::Slot(1),
                Const::Class(vec![2, 3]),
                Const::Int(1),
                Const::Int(2),
                Const::Null,
                s("~ ~ ~ ~\n"),
                s("main"),
                Const::Int(5),
                Const::Method {
                    name: 9,
                    arity: 0,
                    locals: 1,
                    code: vec![
                        Ins::Lit(7),
                        Ins::Lit(5),
                        Ins::Lit(6),
                        Ins::Object(4),
                        Ins::SetLocal(0),
                        Ins::GetSlot(0),
                        Ins::GetLocal(0),
                        Ins::GetSlot(1),
                        Ins::GetLocal(0),
                        Ins::Lit(10),
                        Ins::SetSlot(0),
                        Ins::GetLocal(0),
                        Ins::Print(8, 4),
                    ],
                },
            ],
            globals: vec![],
            entry: 11,
        },
        "1 2 5 object(a=5, b=2)\n",
        true,
    ));
    // user methods that carry the Feeny names of built-ins are ordinary methods
    v.push((
        "user-methods-named-like-builtins",
        Prog {
            consts: vec![
                s("add"),
                s("eq"),
                s("and"),
                Const::Int(100),
                Const::Method { name: 0, arity: 2, locals: 0, code: vec![Ins::Lit(3), Ins::Return] },
                Const::Method { name: 1, arity: 2, locals: 0, code: vec![Ins::GetLocal(1), Ins::Return] },
                Const::Method { name: 2, arity: 2, locals: 0, code: vec![Ins::GetLocal(0), Ins::Return] },
                Const::Class(vec![4, 5, 6]),
                Const::Int(5),
                Const::Int(1),
                s("+"),
                s("~ ~ ~ ~ ~\n"),
                s("main"),
                Const::Method {
                    name: 12,
                    arity: 0,
                    locals: 1,
                    code: vec![
                        Ins::Lit(8),
                        Ins::Object(7),
                        Ins::SetLocal(0),
                        Ins::Lit(9),
                        Ins::CallSlot(0, 2), // obj.add(1) -> 100 (own method)
                        Ins::GetLocal(0),
                        Ins::Lit(9),
                        Ins::CallSlot(1, 2), // obj.eq(1) -> 1
                        Ins::GetLocal(0),
                        Ins::Lit(9),
                        Ins::CallSlot(2, 2), // obj.and(1) -> obj
                        Ins::GetLocal(0),
                        Ins::Lit(9),
                        Ins::CallSlot(10, 2), // obj + 1 -> parent 5 + 1 = 6
                        Ins::Lit(8),
                        Ins::Lit(9),
                        Ins::CallSlot(0, 2), // 5 add 1 -> 6 (built-in Feeny spelling)
                        Ins::Print(11, 5),
                    ],
                },
            ],
            globals: vec![],
            entry: 13,
        },
        "100 1 object(..=5) 6 6\n",
        true,
    ));
    // every activation gets fresh locals (null), also when an earlier activation of the same size wrote
    // them; a `get local` of a slot that was never set reads null
    v.push((
        "fresh-frame-locals",
        Prog {
            consts: vec![
                s("f"),
                s("skip"),
                Const::Int(41),
                s("acc=~ "),
                // f(flag): if flag then local1 <- 41; print local1
                Const::Method {
                    name: 0,
                    arity: 1,
                    locals: 2,
                    code: vec![Ins::GetLocal(0), Ins::Branch(1), Ins::GetLocal(1), Ins::Print(3, 1), Ins::Return, Ins::Label(1), Ins::Lit(2), Ins::SetLocal(1), Ins::SetLocal(2), Ins::Print(3, 1), Ins::Return],
                },
                Const::Bool(true),
                Const::Bool(false),
                s("main"),
                Const::Method { name: 7, arity: 0, locals: 0, code: vec![Ins::Lit(5), Ins::Call(0, 1), Ins::Drop, Ins::Lit(6), Ins::Call(0, 1), Ins::Drop, Ins::Lit(5), Ins::Call(0, 1), Ins::Drop, Ins::Lit(6), Ins::Call(0, 1)] },
            ],
            globals: vec![4],
            entry: 8,
        },
        "acc=41 acc=null acc=41 acc=null ",
        true,
    ));
    // one Method constant used both as a global function and as a class member; `return` in the
    // middle of a method; operands pending on the stack across calls; a parameter slot assigned
    v.push((
        "shared-method-early-return-pending-operands",
        Prog {
            consts: vec![
                s("pick"),
                s("then"),
                Const::Int(1),
                Const::Int(2),
                // pick(a, b): if a then return b (early) ; a <- 2 ; return a
                Const::Method {
                    name: 0,
                    arity: 2,
                    locals: 0,
                    code: vec![Ins::GetLocal(0), Ins::Branch(1), Ins::Lit(3), Ins::SetLocal(0), Ins::Return, Ins::Label(1), Ins::GetLocal(1), Ins::Return, Ins::Lit(2), Ins::Return],
                },
                Const::Class(vec![4]),
                Const::Null,
                Const::Bool(false),
                Const::Int(7),
                s("~ ~ ~ ~ ~\n"),
                s("main"),
                Const::Int(40),
                Const::Method {
                    name: 10,
                    arity: 0,
                    locals: 0,
                    code: vec![
                        Ins::Lit(11),        // 40 stays pending at the bottom
                        Ins::Lit(2),         // 1 pending
                        Ins::Lit(7),         // false
                        Ins::Lit(8),         // 7
                        Ins::Call(0, 2),     // pick(false, 7) as a function -> a <- 2 -> 2
                        Ins::Lit(6),         // null (parent)
                        Ins::Object(5),      // object with member `pick`
                        Ins::Lit(8),         // 7
                        Ins::CallSlot(0, 2), // obj.pick(7): a = obj (truthy) -> early return b = 7
                        Ins::Lit(2),
                        Ins::Lit(8),
                        Ins::Call(0, 2),     // pick(1, 7) -> 7
                        Ins::Print(9, 5),    // 40 1 2 7 7
                    ],
                },
            ],
            globals: vec![4],
            entry: 12,
        },
        "40 1 2 7 7\n",
        true,
    ));
    // method call: slot 0 = receiver, args in call order, locals null; Feeny spellings
    v.push((
        "method-frame-and-feeny",
        Prog {
            consts: vec![
                s("m"),
                s("~ ~ ~ ~|"),
                Const::Method { name: 0, arity: 3, locals: 1, code: vec![Ins::GetLocal(0), Ins::GetLocal(1), Ins::GetLocal(2), Ins::GetLocal(3), Ins::Print(1, 4), Ins::Return] },
                Const::Class(vec![2]),
                Const::Null,
                Const::Int(7),
                Const::Int(3),
                s("sub"),
                s("mod"),
                s("ge"),
                s("neq"),
                s("or"),
                Const::Bool(false),
                Const::Bool(true),
                s("~ ~ ~ ~ ~\n"),
                s("main"),
                Const::Method {
                    name: 15,
                    arity: 0,
                    locals: 0,
                    code: vec![
                        Ins::Lit(4),
                        Ins::Object(3),
                        Ins::Lit(5),
                        Ins::Lit(6),
                        Ins::CallSlot(0, 3),
                        Ins::Drop,
                        Ins::Lit(5),
                        Ins::Lit(6),
                        Ins::CallSlot(7, 2),
                        Ins::Lit(5),
                        Ins::Lit(6),
                        Ins::CallSlot(8, 2),
                        Ins::Lit(5),
                        Ins::Lit(6),
                        Ins::CallSlot(9, 2),
                        Ins::Lit(4),
                        Ins::Lit(6),
                        Ins::CallSlot(10, 2),
                        Ins::Lit(12),
                        Ins::Lit(13),
                        Ins::CallSlot(11, 2),
                        Ins::Print(14, 5),
                    ],
                },
            ],
            globals: vec![],
            entry: 16,
        },
        "object() 7 3 null|4 1 true true true\n",
        true,
    ));
    // one string constant in every role at once: label, function name, global variable, field, method
    v.push((
        "one-name-constant-in-every-role",
        Prog {
            consts: vec![
                s("x"),                       // 0
                Const::Slot(0),               // 1 global x / field x
                Const::Int(5),                // 2
                Const::Int(7),                // 3
                Const::Method { name: 0, arity: 1, locals: 0, code: vec![Ins::GetLocal(0), Ins::Return] }, // 4 function x(a)
                Const::Method { name: 0, arity: 2, locals: 0, code: vec![Ins::GetLocal(1), Ins::Return] }, // 5 method x(this, a)
                Const::Class(vec![1, 5]),     // 6 object with field x and method x
                Const::Null,                  // 7
                s("~ ~ ~ ~\n"),               // 8
                s("main"),                    // 9
                Const::Int(9),                // 10
                Const::Method {
                    name: 9,
                    arity: 0,
                    locals: 1,
                    code: vec![
                        Ins::Lit(2),
                        Ins::SetGlobal(0),
                        Ins::Drop,
                        Ins::Goto(0),
                        Ins::Lit(10),
                        Ins::SetGlobal(0),
                        Ins::Drop,
                        Ins::Label(0),
                        Ins::Lit(7),
                        Ins::Lit(3),
                        Ins::Object(6),
                        Ins::SetLocal(0),
                        Ins::Drop,
                        Ins::GetGlobal(0),
                        Ins::Lit(10),
                        Ins::Call(0, 1),
                        Ins::GetLocal(0),
                        Ins::GetSlot(0),
                        Ins::GetLocal(0),
                        Ins::Lit(2),
                        Ins::CallSlot(0, 2),
                        Ins::Print(8, 4),
                    ],
                },
            ],
            globals: vec![1, 4],
            entry: 11,
        },
        "5 9 7 5\n",
        true,
    ));
    // the entry method is an ordinary function too: it can call itself
    v.push((
        "entry-calls-itself",
        Prog {
            consts: vec![
                s("main"),
                s("g"),
                Const::Slot(1),
                Const::Int(1),
                s("P"),
                s("done"),
                Const::Method {
                    name: 0,
                    arity: 0,
                    locals: 0,
                    code: vec![Ins::GetGlobal(1), Ins::Branch(5), Ins::Lit(3), Ins::SetGlobal(1), Ins::Drop, Ins::Call(0, 0), Ins::Drop, Ins::Label(5), Ins::Print(4, 0), Ins::Return],
                },
            ],
            globals: vec![2, 6],
            entry: 6,
        },
        "PP",
        true,
    ));
    // a method whose first instruction is a label that a later jump targets; the loop counts down in a local
    v.push((
        "method-starts-with-its-loop-label",
        Prog {
            consts: vec![
                s("main"),
                s("count"),
                s("top"),
                s("-"),
                Const::Int(1),
                Const::Int(3),
                s("<~>"),
                s("=="),
                Const::Int(0),
                s("out"),
                Const::Method {
                    name: 1,
                    arity: 1,
                    locals: 0,
                    code: vec![
                        Ins::Label(2),
                        Ins::GetLocal(0),
                        Ins::Print(6, 1),
                        Ins::Drop,
                        Ins::GetLocal(0),
                        Ins::Lit(4),
                        Ins::CallSlot(3, 2),
                        Ins::SetLocal(0),
                        Ins::Lit(8),
                        Ins::CallSlot(7, 2),
                        Ins::Branch(9),
                        Ins::Goto(2),
                        Ins::Label(9),
                        Ins::GetLocal(0),
                        Ins::Return,
                    ],
                },
                Const::Method { name: 0, arity: 0, locals: 0, code: vec![Ins::Lit(5), Ins::Call(1, 1), Ins::Print(6, 1)] },
            ],
            globals: vec![10],
            entry: 11,
        },
        "<3><2><1><0>",
        true,
    ));
    // the run ends where the code ends, whichever frame is active then: the last method of the file is a callee whose
    // last instruction is a print (no return), reached through two calls
    v.push((
        "code-ends-inside-a-callee",
        Prog {
            consts: vec![
                s("main"),
                s("outer"),
                s("inner"),
                s("A"),
                s("B"),
                s("C"),
                Const::Method { name: 0, arity: 0, locals: 0, code: vec![Ins::Print(3, 0), Ins::Drop, Ins::Call(1, 0), Ins::Drop, Ins::Print(3, 0)] },
                Const::Method { name: 1, arity: 0, locals: 0, code: vec![Ins::Print(4, 0), Ins::Drop, Ins::Call(2, 0), Ins::Return] },
                Const::Method { name: 2, arity: 0, locals: 0, code: vec![Ins::Print(5, 0)] },
            ],
            globals: vec![7, 8],
            entry: 6,
        },
        "ABC",
        true,
    ));
    // an entry method without instructions finishes at once, wherever it stands in the file
    v.push((
        "empty-entry-before-other-methods",
        Prog {
            consts: vec![
                s("main"),
                s("later"),
                s("X"),
                Const::Method { name: 0, arity: 0, locals: 0, code: vec![] },
                Const::Method { name: 1, arity: 0, locals: 1, code: vec![Ins::Print(2, 0), Ins::SetLocal(0), Ins::Return] },
            ],
            globals: vec![4],
            entry: 3,
        },
        "",
        true,
    ));
    // return pops the frame and nothing else: a callee may leave several values (or none of its own) for its caller
    v.push((
        "return-leaves-the-operand-stack-alone",
        Prog {
            consts: vec![
                s("main"),
                s("divmod"),
                Const::Int(7),
                Const::Int(2),
                s("~ ~ ~\n"),
                Const::Method { name: 1, arity: 1, locals: 0, code: vec![Ins::Lit(2), Ins::Lit(3), Ins::GetLocal(0), Ins::Return] },
                s("peek"),
                Const::Method { name: 6, arity: 0, locals: 0, code: vec![Ins::Return] },
                Const::Int(5),
                s("~|~\n"),
                Const::Method { name: 0, arity: 0, locals: 0, code: vec![Ins::Lit(8), Ins::Call(1, 1), Ins::Print(4, 3), Ins::Drop, Ins::Lit(2), Ins::Lit(3), Ins::Call(6, 0), Ins::Print(9, 2)] },
            ],
            globals: vec![5, 7],
            entry: 10,
        },
        "7 2 5\n7|2\n",
        true,
    ));
    // what counts as true is decided by the value itself: every object (whatever its parent chain ends in), every
    // array and every integer is, false and null are not
    {
        let mut consts = vec![s("main"), Const::Bool(false), Const::Null, Const::Int(0), Const::Class(vec![]), s("T"), s("F"), Const::Bool(true)];
        let mut code: Vec<Ins> = Vec::new();
        // (instructions that leave the tested value on the stack)
        let tests: Vec<Vec<Ins>> = vec![
            vec![Ins::Lit(1), Ins::Object(4)],
            vec![Ins::Lit(2), Ins::Object(4)],
            vec![Ins::Lit(3), Ins::Object(4)],
            vec![Ins::Lit(1), Ins::Object(4), Ins::Object(4)],
            vec![Ins::Lit(3), Ins::Lit(2), Ins::Array],
            vec![Ins::Lit(3)],
            vec![Ins::Lit(1)],
            vec![Ins::Lit(2)],
            vec![Ins::Lit(7)],
            vec![Ins::Lit(3), Ins::Lit(1), Ins::Array, Ins::Object(4)],
        ];
        for (n, t) in tests.into_iter().enumerate() {
            consts.push(s(&format!("yes{}", n)));
            let ly = (consts.len() - 1) as u16;
            consts.push(s(&format!("done{}", n)));
            let ld = (consts.len() - 1) as u16;
            code.extend(t);
            code.extend(vec![Ins::Branch(ly), Ins::Print(6, 0), Ins::Drop, Ins::Goto(ld), Ins::Label(ly), Ins::Print(5, 0), Ins::Drop, Ins::Label(ld)]);
        }
        code.push(Ins::Lit(2));
        consts.push(Const::Method { name: 0, arity: 0, locals: 0, code });
        let entry = (consts.len() - 1) as u16;
        v.push(("truthiness-of-objects-and-arrays", Prog { consts, globals: vec![], entry }, "TTTTTTFFTT", true));
    }
    // instructions mean something when they execute, not when the file is loaded: a print whose format
    // has an undefined escape, a placeholder/argument mismatch, a call of an unknown function, a class
    // with duplicate members and a read of an unknown global are harmless in a method nobody calls
    // and behind a goto, and fail only at the moment they run (after the earlier output)
    let dead_consts = |entry_code: Vec<Ins>| -> Prog {
        Prog {
            consts: vec![
                s("main"),                // 0
                s("before\n"),            // 1
                s("bad \\q escape"),       // 2
                s("~ ~ needs two\n"),     // 3
                Const::Int(1),            // 4
                s("nosuch"),              // 5
                s("after\n"),             // 6
                s("skip"),                // 7
                s("dead"),                // 8
                s("dup"),                 // 9
                Const::Slot(9),           // 10
                Const::Class(vec![10, 10]), // 11
                Const::Null,              // 12
                Const::Method {
                    name: 8,
                    arity: 0,
                    locals: 0,
                    code: vec![
                        Ins::Print(2, 0),
                        Ins::Drop,
                        Ins::Lit(4),
                        Ins::Print(3, 1),
                        Ins::Drop,
                        Ins::Call(5, 0),
                        Ins::Drop,
                        Ins::GetGlobal(5),
                        Ins::Drop,
                        Ins::Lit(12),
                        Ins::Lit(4),
                        Ins::Lit(4),
                        Ins::Object(11),
                        Ins::Return,
                    ],
                }, // 13
                Const::Method { name: 0, arity: 0, locals: 0, code: entry_code }, // 14
            ],
            globals: vec![13],
            entry: 14,
        }
    };
    v.push(("bad-instructions-in-uncalled-method", dead_consts(vec![Ins::Print(1, 0), Ins::Drop, Ins::Print(6, 0)]), "before\nafter\n", true));
    v.push((
        "bad-instructions-behind-goto",
        dead_consts(vec![
            Ins::Print(1, 0),
            Ins::Drop,
            Ins::Goto(7),
            Ins::Print(2, 0),
            Ins::Drop,
            Ins::Lit(4),
            Ins::Print(3, 1),
            Ins::Drop,
            Ins::Call(5, 0),
            Ins::Drop,
            Ins::Label(7),
            Ins::Print(6, 0),
        ]),
        "before\nafter\n",
        true,
    ));
    v.push(("bad-escape-fails-when-executed", dead_consts(vec![Ins::Print(1, 0), Ins::Drop, Ins::Print(2, 0), Ins::Drop, Ins::Print(6, 0)]), "before\n", false));
    v.push(("placeholder-mismatch-fails-when-executed", dead_consts(vec![Ins::Print(1, 0), Ins::Drop, Ins::Lit(4), Ins::Print(3, 1), Ins::Drop, Ins::Print(6, 0)]), "before\n", false));
    v.push(("unknown-function-fails-when-executed", dead_consts(vec![Ins::Print(1, 0), Ins::Drop, Ins::Call(5, 0), Ins::Drop, Ins::Print(6, 0)]), "before\n", false));
    v.push(("dead-method-fails-when-called", dead_consts(vec![Ins::Print(1, 0), Ins::Drop, Ins::Call(8, 0), Ins::Drop, Ins::Print(6, 0)]), "before\n", false));
    v
}

pub fn c05(ctx: &Ctx, rep: &mut Report) {
    if let Some(r) = &ctx.replay {
        if let Some(b) = r.get("prog_b64").and_then(|s| s.as_str()) {
            match bcfmt::read(&unb64(b)) {
                Ok(prog) => c05_file(rep, "replay", &prog, 5_000_000, r.clone(), None),
                Err(e) => rep.notes.push(format!("replay payload undecodable: {}", e)),
            }
        }
        return;
    }
    // (b) bounded-exhaustive built-in dispatch table
    let recvs = [
        RecvK::Null,
        RecvK::Int(0),
        RecvK::Int(1),
        RecvK::Int(-1),
        RecvK::Int(7),
        RecvK::Int(i32::MIN),
        RecvK::Bool(true),
        RecvK::Bool(false),
        RecvK::Array,
        RecvK::Object,
        RecvK::ObjExt(0),
        RecvK::ObjExt(1),
        RecvK::ObjExt(2),
        RecvK::ObjExt(3),
    ];
    let names = [
        "+", "-", "*", "/", "%", "<", ">", "<=", ">=", "==", "!=", "&", "|", "add", "sub", "mul", "div", "mod", "le", "ge", "lt", "gt", "eq", "neq", "and", "or", "get", "set",
        "foo", "", "Add", "=", "not", "length", "size", "len", "push", "pop", "clone", "to_string", "equals", "neg", "abs", "xor", "ne", "lte", "gte", "GET", "Set", "get ", "+ ", "++", "=>", "<>", "&&", "||", "^", "!", "~",
    ];
    let arg_sets: Vec<Vec<ArgK>> = vec![
        vec![],
        vec![ArgK::Null],
        vec![ArgK::Int(0)],
        vec![ArgK::Int(3)],
        vec![ArgK::Int(-1)],
        vec![ArgK::Bool(true)],
        vec![ArgK::Bool(false)],
        vec![ArgK::Array],
        vec![ArgK::Object],
        vec![ArgK::Int(1), ArgK::Int(5)],
        vec![ArgK::Int(0), ArgK::Object],
        vec![ArgK::Int(1), ArgK::Int(2), ArgK::Int(3)],
    ];
    let mut k = 0u64;
    for r in recvs.iter() {
        for n in names.iter() {
            for a in arg_sets.iter() {
                k += 1;
                if !ctx.mine(k) {
                    continue;
                }
                let prog = table_program(*r, n, a);
                let replay = json!({"check":"C05","prog_b64": b64(&bcfmt::write(&prog)), "cell": format!("{:?}.{}({:?})", r, n, a)});
                c05_file(rep, &format!("table:{:?}.{}({:?})", r, n, a), &prog, 1000, replay, None);
                rep.bump("c05-table", "cells");
            }
        }
    }
    // integer boundary values under both spellings of every integer built-in (wrap-around, MIN / -1,
    // zero divisors, comparisons whose difference overflows)
    for a in super::lang::BOUNDARY.iter() {
        for b in super::lang::BOUNDARY.iter() {
            for n in names[..24].iter().filter(|n| !["&", "|"].contains(*n)) {
                k += 1;
                if !ctx.mine(k) {
                    continue;
                }
                let prog = table_program(RecvK::Int(*a), n, &[ArgK::Int(*b)]);
                let replay = json!({"check":"C05","prog_b64": b64(&bcfmt::write(&prog)), "cell": format!("{}.{}({})", a, n, b)});
                c05_file(rep, &format!("int-table:{}.{}({})", a, n, b), &prog, 1000, replay, None);
                rep.bump("c05-table", "integer boundary cells");
            }
        }
    }
    if ctx.shard == 0 {
        for (name, prog, expect, ok) in special_programs() {
            let replay = json!({"check":"C05","prog_b64": b64(&bcfmt::write(&prog)), "special": name});
            c05_file(rep, &format!("special:{}", name), &prog, 10_000, replay, Some((expect, ok)));
        }
    }
    // the stress shapes (255 arguments, > 256 locals / constants / labels, long strings …) compiled by
    // the independent compiler
    let mut ks = 0u64;
    for (name, src) in stress_sources() {
        ks += 1;
        if !ctx.mine(ks) {
            continue;
        }
        if let Ok(ast) = real::parse(&src) {
            let out = refsem::run(&ast, big_limits());
            if !out.judged() {
                continue;
            }
            let mut rng = ctx.rng("C05stress", ks);
            for variant in 0..2 {
                if let Ok(prog) = altcc::compile(&ast, &mut rng) {
                    let replay = json!({"check":"C05","prog_b64": if src.len() < 20000 { b64(&bcfmt::write(&prog)) } else { String::new() }, "stress": name, "variant": variant});
                    c05_file(rep, &format!("stress:{}/v{}", name, variant), &prog, cap_for(&out) * 2, replay, Some((out.out.as_str(), !out.failed())));
                    rep.bump("c05-source", "stress-altcc");
                }
            }
        }
    }
    rep.count("table_cells_total", (recvs.len() * names.len() * arg_sets.len()) as u64);
    // (a) alternate compiler with randomised conventions
    let n = ctx.share(80_000, 2_000_000);
    let dir = ctx.scratch("c05");
    let cli_every = (n / if ctx.quick() { 8 } else { 150 }).max(1);
    for i in 0..n {
        if i % 64 == 0 && ctx.out_of_time() && i > n / 10 {
            rep.notes.push(format!("time budget reached after {} of {} programs", i, n));
            break;
        }
        let mut rng = ctx.rng("C05", i);
        let case = match well_behaved_case(&mut rng, i) {
            Some(c) => c,
            None => continue,
        };
        let out = refsem::run(&case.ast, default_limits());
        let expect = match &out.res {
            Res::Ok => Some((out.out.clone(), true)),
            Res::Fail(_) => Some((out.out.clone(), false)),
            Res::Static(_) => {
                rep.skip("static-failure");
                continue;
            }
            Res::Fuel => {
                rep.skip("reference-fuel");
                continue;
            }
            // out-of-fragment programs are still conforming bytecode: the two machines are compared
            _ => None,
        };
        if out.order_hazard.is_some() {
            rep.skip("order-hazard");
            continue;
        }
        // several independent compilations of the same source (different conventions)
        for variant in 0..2 {
            let prog = match altcc::compile(&case.ast, &mut rng) {
                Ok(p) => p,
                Err(_) => {
                    rep.skip("altcc-rejects");
                    break;
                }
            };
            let replay = json!({"check":"C05","prog_b64": b64(&bcfmt::write(&prog)), "src": case.src, "variant": variant});
            let cap = cap_for(&out) * 2;
            c05_file(rep, &format!("{}/v{}", case.origin, variant), &prog, cap, replay.clone(), expect.as_ref().map(|(o, k)| (o.as_str(), *k)));
            rep.bump("c05-source", "altcc");
            // real CLI: `fml execute`
            if i % cli_every == 0 && variant == 0 {
                if let Some((eo, ek)) = &expect {
                    let f = dir.join(format!("p{}.bc", i));
                    if std::fs::write(&f, bcfmt::write(&prog)).is_ok() {
                        // by file, on stdin, and by a path that is not a regular file (/dev/stdin behind a pipe, a named pipe, /proc/self/fd/0)
                        let way = (i / cli_every) % 5;
                        let r = match way {
                            0 => cli::run(cli::Spec::new(&["execute", f.to_str().unwrap()])),
                            1 => cli::run(cli::Spec::new(&["execute"]).stdin(&bcfmt::write(&prog))),
                            w => cli::run_input_not_a_file((w - 2) as usize, &["execute"], &bcfmt::write(&prog), &[], &dir, "c05").unwrap_or_else(|| cli::run(cli::Spec::new(&["execute", f.to_str().unwrap()]))),
                        };
                        rep.bump("c05-cli-input", ["file", "stdin", "/dev/stdin behind a pipe", "named pipe", "/proc/self/fd/0"][way as usize]);
                        rep.evaluations += 1;
                        if r.timed_out || r.spawn_error.is_some() {
                            rep.skip("cli-watchdog");
                        } else {
                            rep.conclusive += 1;
                            rep.count("cli_runs", 1);
                            if r.signal.is_some() || r.success() != *ek || r.out_str() != *eo {
                                rep.violation("C05:cli-execute", format!("{}: `fml execute` on an independently compiled file: expected ok={} stdout={:?}; observed {}", case.origin, ek, cli::truncate(eo, 200), r.describe()), replay.clone());
                            }
                        }
                        let _ = std::fs::remove_file(&f);
                    }
                }
            }
        }
        if rep.samples.len() < 2 && case.src.len() < 500 {
            if let Ok(p) = altcc::compile(&case.ast, &mut rng) {
                if p.n_instructions() < 60 {
                    rep.sample(json!({"src": case.src, "independently_compiled": p.dump()}));
                }
            }
        }
    }
}

// ---------------------------------------------------------------------------------------------
// C08

fn c08_sources(ctx: &Ctx, i: u64) -> Option<(String, crate::bytecode::program::Program)> {
    let mut rng = ctx.rng("C08", i);
    match i % 4 {
        0 => {
            // long and multi-byte strings, incl. newline followed by > 1 KiB
            let n = 1 + rng.below(3);
            let mut src = String::new();
            for _ in 0..n {
                let mut f = String::new();
                let len = [3usize, 100, 1100, 3000, 9000, 70000][rng.below(6)];
                if rng.coin() {
                    f.push_str("x");
                    f.push('\n');
                }
                while f.len() < len {
                    f.push(match rng.below(30) {
                        0 => '\n',
                        1 => 'é',
                        2 => '語',
                        _ => 'a',
                    });
                }
                src.push_str(&format!("print(\"{}\");\n", f));
            }
            let ast = real::parse(&src).ok()?;
            Some((format!("long-strings#{}", i), real::compile(&ast).ok()?))
        }
        1 => {
            let prog = progs::structural(&mut rng, &progs::Opts { line_breaks: true, big: i % 16 == 1 });
            Some((format!("structural#{}", i), conv::program_from_prog(&prog, &prog.method_indices()).ok()?))
        }
        _ => {
            let c = well_behaved_case(&mut rng, i)?;
            Some((c.origin, real::compile(&c.ast).ok()?))
        }
    }
}

enum Path {
    Direct,
    NamedSink,
}

fn serialize_into(p: &crate::bytecode::program::Program, sink: &Sink, path: &Path) -> Result<(), String> {
    let r = std::panic::catch_unwind(std::panic::AssertUnwindSafe(|| match path {
        Path::Direct => {
            let mut s = sink.clone();
            p.serialize(&mut s).map_err(|e| format!("{:#}", e))
        }
        Path::NamedSink => {
            // the path `fml compile` takes: BCSerializer::BYTES over a NamedSink
            let mut ns = crate::NamedSink { name: crate::Stream::Console, sink: Box::new(sink.clone()) };
            crate::BCSerializer::BYTES.serialize(p, &mut ns).map_err(|e| format!("{:#}", e))
        }
    }));
    match r {
        Ok(x) => x,
        Err(_) => Err("panic".into()),
    }
}

fn c08_schedule(rep: &mut Report, origin: &str, p: &crate::bytecode::program::Program, baseline: &[u8], fault: Fault, path: Path, replay: &serde_json::Value) {
    rep.evaluations += 1;
    let sink = Sink::new(fault.clone());
    let r = serialize_into(p, &sink, &path);
    rep.conclusive += 1;
    rep.count("sink_schedules", 1);
    rep.count("write_calls_observed", sink.n_calls() as u64);
    rep.count("short_writes_injected", sink.short_writes() as u64);
    let kind = match &fault {
        Fault::None => "none",
        Fault::Limit(_) => "limit",
        Fault::ShortAt(_) => "short-at",
        Fault::OneByteAt(_) => "one-byte-at",
        Fault::InterruptAt(_) => "interrupt-at",
        Fault::ZeroAt(_) => "zero-at",
        Fault::ErrAt(_) => "error-at",
    };
    rep.bump("c08-fault", kind);
    let data = sink.data();
    match r {
        Ok(()) => {
            rep.bump("c08-result", "ok");
            if data != baseline {
                let mut rp = replay.clone();
                rp["fault"] = json!(format!("{:?}", fault));
                rep.violation(
                    &format!("C08:{}-drops-bytes", kind),
                    format!("{}: serialize reports success with sink behaviour {:?}, but the sink received {} of {} bytes (first difference at {})", origin, fault, data.len(), baseline.len(), data.iter().zip(baseline.iter()).position(|(a, b)| a != b).unwrap_or(data.len().min(baseline.len()))),
                    rp,
                );
            }
            if matches!(fault, Fault::ErrAt(_) | Fault::ZeroAt(_)) && sink.0.borrow().calls.iter().any(|(_, a)| *a == -2 || *a == 0) {
                // a hard error / Ok(0) was delivered and yet success was reported with complete data:
                // impossible unless bytes were re-sent; covered by the comparison above
            }
        }
        Err(_) => {
            rep.bump("c08-result", "error-reported");
            // accepted bytes must still be a prefix of the real stream (never garbage)
            if !baseline.starts_with(&data) {
                rep.count("error_with_non_prefix_data", 1);
            }
        }
    }
}

pub fn c08(ctx: &Ctx, rep: &mut Report) {
    let replay_cli = ctx.replay.as_ref().map(|r| r.get("via").is_some()).unwrap_or(false);
    if let (Some(r), false) = (&ctx.replay, replay_cli) {
        if let Some(b) = r.get("prog_b64").and_then(|s| s.as_str()).filter(|s| !s.is_empty()) {
            if let Ok(prog) = bcfmt::read(&unb64(b)) {
                if let Ok(p) = conv::program_from_prog(&prog, &prog.method_indices()) {
                    if let Ok(baseline) = real::serialize(&p) {
                        let probe = Sink::new(Fault::None);
                        let _ = serialize_into(&p, &probe, &Path::Direct);
                        let calls = probe.n_calls();
                        for k in [1usize, 2, 3, 4, 7, 16, 64, 1024].iter() {
                            c08_schedule(rep, "replay", &p, &baseline, Fault::Limit(*k), Path::Direct, r);
                            c08_schedule(rep, "replay", &p, &baseline, Fault::Limit(*k), Path::NamedSink, r);
                        }
                        for c in 0..calls.min(4000) {
                            c08_schedule(rep, "replay", &p, &baseline, Fault::ShortAt(c), if c % 2 == 0 { Path::Direct } else { Path::NamedSink }, r);
                            c08_schedule(rep, "replay", &p, &baseline, Fault::ZeroAt(c), Path::Direct, r);
                            c08_schedule(rep, "replay", &p, &baseline, Fault::OneByteAt(c), Path::Direct, r);
                        }
                    }
                }
            }
            return;
        }
        if let Some(src) = r.get("src").and_then(|s| s.as_str()) {
            if let Ok(ast) = real::parse(src) {
                if let Ok(p) = real::compile(&ast) {
                    if let Ok(baseline) = real::serialize(&p) {
                        for k in [1usize, 2, 3, 4, 7, 16, 64, 1024].iter() {
                            c08_schedule(rep, "replay", &p, &baseline, Fault::Limit(*k), Path::Direct, r);
                            c08_schedule(rep, "replay", &p, &baseline, Fault::Limit(*k), Path::NamedSink, r);
                        }
                    }
                }
            }
        }
        return;
    }
    let n = if replay_cli { 0 } else { ctx.share(1_200, 20_000) };
    for i in 0..n {
        if ctx.out_of_time() && i > n / 4 {
            rep.notes.push(format!("time budget reached after {} of {} programs", i, n));
            break;
        }
        let (origin, p) = match c08_sources(ctx, i) {
            Some(x) => x,
            None => {
                rep.skip("source-unavailable");
                continue;
            }
        };
        let baseline = match real::serialize(&p) {
            Ok(b) => b,
            Err(_) => {
                rep.skip("serialize-to-memory-fails");
                continue;
            }
        };
        let replay = {
            let prog = conv::prog_from_program(&p).ok().map(|x| x.0);
            json!({"check":"C08","origin":origin,"prog_b64": match prog { Some(pr) if baseline.len() < 300_000 => b64(&bcfmt::write(&pr)), _ => String::new() }, "program_index": i})
        };
        // how many write calls does a plain sink see?
        let probe = Sink::new(Fault::None);
        let _ = serialize_into(&p, &probe, &Path::Direct);
        let calls = probe.n_calls();
        if probe.data() != baseline {
            rep.inconsistency(format!("{}: logging sink received different bytes than the Vec sink", origin));
            continue;
        }
        rep.nontrivial(hash_bytes(&baseline));
        rep.bump("c08-program-calls", &format!("{}", if calls < 50 { "<50" } else if calls < 500 { "50-499" } else if calls < 2000 { "500-1999" } else { ">=2000" }));
        for k in [1usize, 2, 3, 4, 7, 16, 64, 1024].iter() {
            c08_schedule(rep, &origin, &p, &baseline, Fault::Limit(*k), Path::Direct, &replay);
            c08_schedule(rep, &origin, &p, &baseline, Fault::Limit(*k), Path::NamedSink, &replay);
        }
        let stride = if calls <= 2000 { 1 } else { calls / 1000 };
        let mut c = 0;
        while c < calls {
            c08_schedule(rep, &origin, &p, &baseline, Fault::ShortAt(c), if c % 2 == 0 { Path::Direct } else { Path::NamedSink }, &replay);
            if c % 5 == 0 {
                c08_schedule(rep, &origin, &p, &baseline, Fault::OneByteAt(c), Path::Direct, &replay);
            }
            if c % 7 == 0 {
                c08_schedule(rep, &origin, &p, &baseline, Fault::InterruptAt(c), Path::Direct, &replay);
                c08_schedule(rep, &origin, &p, &baseline, Fault::ZeroAt(c), Path::Direct, &replay);
                c08_schedule(rep, &origin, &p, &baseline, Fault::ErrAt(c), Path::NamedSink, &replay);
            }
            c += stride;
        }
        if rep.samples.len() < 2 {
            let s = Sink::new(Fault::Limit(3));
            let r = serialize_into(&p, &s, &Path::Direct);
            let calls: Vec<(usize, i64)> = s.0.borrow().calls.iter().take(12).cloned().collect();
            rep.sample(json!({"program": origin, "bytes": baseline.len(), "sink": "accepts at most 3 bytes per call", "first_write_calls_requested_accepted": calls, "result_ok": r.is_ok(), "received": s.data().len()}));
        }
    }
    // real sinks at the CLI: > file, pipe, slowly drained pipe, each against -o file
    let dir = ctx.scratch("c08");
    // outputs of every size around the usual buffers (empty program up to 70 000 bytes) to a device that takes
    // nothing, by redirect and by -o, from `compile` and from `parse`: whatever is still buffered when the command
    // ends must be flushed while a failure can still be reported
    if ctx.shard == 3 % ctx.nshards {
        let exe_path = std::env::current_exe().unwrap();
        let exe = exe_path.to_str().unwrap();
        for (n, body_len) in [0usize, 1, 500, 900, 1023, 1024, 1025, 4000, 8100, 8192, 8300, 70000].iter().enumerate() {
            let src = if *body_len == 0 { String::new() } else { format!("print(\"{}\");\n", "b".repeat(*body_len)) };
            let sf = dir.join(format!("full{}.fml", n));
            let jf = dir.join(format!("full{}.json", n));
            if std::fs::write(&sf, &src).is_err() {
                continue;
            }
            let made = cli::run(cli::Spec::new(&["parse", sf.to_str().unwrap(), "--format", "json", "-o", jf.to_str().unwrap()]));
            if !made.success() {
                continue;
            }
            let replay = json!({"check":"C08","src": if src.len() < 20000 { src.clone() } else { String::new() }, "via":"cli"});
            let cases: Vec<(&str, cli::CliRun)> = vec![
                ("compile > /dev/full", cli::run(cli::Spec::new(&["-c", "exec \"$0\" compile \"$1\" > /dev/full", exe, jf.to_str().unwrap()]).exe(std::path::Path::new("/bin/bash")))),
                ("compile -o /dev/full", cli::run(cli::Spec::new(&["compile", jf.to_str().unwrap(), "-o", "/dev/full"]))),
                ("parse > /dev/full", cli::run(cli::Spec::new(&["-c", "exec \"$0\" parse \"$1\" --format json > /dev/full", exe, sf.to_str().unwrap()]).exe(std::path::Path::new("/bin/bash")))),
                ("parse -o /dev/full", cli::run(cli::Spec::new(&["parse", sf.to_str().unwrap(), "--format", "json", "-o", "/dev/full"]))),
            ];
            for (how, r) in cases.iter() {
                rep.evaluations += 1;
                if r.timed_out || r.spawn_error.is_some() {
                    rep.skip("cli-watchdog");
                    continue;
                }
                rep.conclusive += 1;
                rep.count("cli_runs", 1);
                rep.bump("c08-real-sink", &format!("{} (fixed sizes)", how));
                if r.success() {
                    rep.violation("C08:cli:device-full", format!("`fml {}` of a program with a {}-byte string exits 0 although the device takes nothing", how, body_len), replay.clone());
                }
            }
            let _ = std::fs::remove_file(&sf);
            let _ = std::fs::remove_file(&jf);
        }
    }
    let m = ctx.share(400, 8_000);
    for i in 0..m {
        if ctx.out_of_time() && i > m / 4 {
            break;
        }
        let mut rng = ctx.rng("C08cli", i);
        // programs whose string constants contain a newline followed by > 1 KiB
        let mut src = String::new();
        let k = 1 + rng.below(3);
        for _ in 0..k {
            let mut f = String::from("head");
            if !rng.chance(1, 5) {
                f.push('\n');
            }
            let len = if i % 5 == 0 { 70000 } else { [10usize, 900, 1100, 3000, 20000, 70000][rng.below(6)] };
            while f.len() < len {
                f.push(if rng.chance(1, 200) { '\n' } else { 'b' });
            }
            src.push_str(&format!("print(\"{}\");\n", f));
        }
        let ast = match real::parse(&src) {
            Ok(a) => a,
            Err(_) => continue,
        };
        let json_ast = match crate::ASTSerializer::JSON.serialize(&ast) {
            Ok(j) => j,
            Err(_) => continue,
        };
        let jf = dir.join(format!("p{}.json", i));
        let of = dir.join(format!("p{}.bc", i));
        let rf = dir.join(format!("p{}.redirect.bc", i));
        if std::fs::write(&jf, &json_ast).is_err() {
            continue;
        }
        let base = cli::run(cli::Spec::new(&["compile", jf.to_str().unwrap(), "-o", of.to_str().unwrap()]));
        let expected = std::fs::read(&of).unwrap_or_default();
        if !base.success() || expected.is_empty() {
            rep.skip("compile -o failed (C06 territory)");
            continue;
        }
        let replay = json!({"check":"C08","src": if src.len() < 20000 { src.clone() } else { String::new() }, "via":"cli"});
        let runs = vec![
            ("compile > file", cli::run_stdout_to_file(cli::Spec::new(&["compile", jf.to_str().unwrap()]), &rf)),
            ("compile | reader", cli::run(cli::Spec::new(&["compile", jf.to_str().unwrap()]))),
            ("compile | slow reader", cli::run_slow_drain(cli::Spec::new(&["compile", jf.to_str().unwrap()]), 1 + rng.below(4000), std::time::Duration::from_micros(200))),
        ];
        // the same redirect typed at an interactive shell: stdin (and stderr) are a terminal. `script`
        // provides the pseudo-terminal; the redirect happens inside it.
        let mut runs = runs;
        if i % 4 == 0 && std::path::Path::new("/usr/bin/script").exists() {
            let tf = dir.join(format!("p{}.tty.bc", i));
            let inner = format!("'{}' compile '{}' > '{}'", std::env::current_exe().unwrap().display(), jf.display(), tf.display());
            let s = cli::run(cli::Spec::new(&["-q", "-e", "-c", &inner, "/dev/null"]).exe(std::path::Path::new("/usr/bin/script")));
            if s.spawn_error.is_none() && !s.timed_out {
                let got = std::fs::read(&tf).unwrap_or_default();
                let mut r = s.clone();
                r.stdout = got;
                runs.push(("compile > file, terminal on stdin", r));
            }
            let _ = std::fs::remove_file(&tf);
        }
        // sinks that cannot take everything: a device without space, and a reader that closes its end
        // of the pipe while more than two pipe buffers' worth of bytes is still to come. Success may
        // not be reported (an error status or death by SIGPIPE both count as reporting the failure).
        // (redirected by a shell: reading /dev/full back, as run_stdout_to_file would, never ends)
        let exe_path = std::env::current_exe().unwrap();
        let full = cli::run(cli::Spec::new(&["-c", "exec \"$0\" compile \"$1\" > /dev/full", exe_path.to_str().unwrap(), jf.to_str().unwrap()]).exe(std::path::Path::new("/bin/bash")));
        rep.evaluations += 1;
        if !full.timed_out && full.spawn_error.is_none() {
            rep.conclusive += 1;
            rep.bump("c08-real-sink", "compile > /dev/full");
            if full.success() {
                rep.violation("C08:cli:device-full", format!("`fml compile > /dev/full` exits 0 although none of the {} bytes could be written", expected.len()), replay.clone());
            }
        }
        let after = [0usize, 1, 5, 4096][rng.below(4)];
        if expected.len() > after + 2 * 65536 + 4096 {
            let early = cli::run_close_early(cli::Spec::new(&["compile", jf.to_str().unwrap()]), after);
            rep.evaluations += 1;
            if !early.timed_out && early.spawn_error.is_none() {
                rep.conclusive += 1;
                rep.bump("c08-real-sink", "compile | reader that closes early");
                if early.success() {
                    rep.violation(
                        "C08:cli:reader-closes-early",
                        format!("`fml compile | reader` exits 0 although the reader closed the pipe after {} of {} bytes", after, expected.len()),
                        replay.clone(),
                    );
                }
            }
        }
        for (how, r) in runs {
            rep.evaluations += 1;
            if r.timed_out || r.spawn_error.is_some() {
                rep.skip("cli-watchdog");
                continue;
            }
            rep.conclusive += 1;
            rep.count("cli_runs", 1);
            rep.bump("c08-real-sink", how);
            if r.success() && r.stdout != expected {
                rep.violation(
                    &format!("C08:cli:{}", how.replace(' ', "-")),
                    format!("`fml {}` exits 0 but delivers {} bytes; `-o file` writes {} bytes", how, r.stdout.len(), expected.len()),
                    replay.clone(),
                );
            }
        }
        let _ = std::fs::remove_file(&jf);
        let _ = std::fs::remove_file(&of);
        let _ = std::fs::remove_file(&rf);
    }
}
