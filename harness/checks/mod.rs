//! One module per group of properties; `dispatch` routes a check name to it.

pub mod bytecode;
pub mod common;

use super::{Ctx, Report};

pub fn dispatch(ctx: &Ctx, rep: &mut Report) -> bool {
    match ctx.check.as_str() {
        "C02" => bytecode::c02(ctx, rep),
        "C03" => bytecode::c03(ctx, rep),
        "C04" => bytecode::c04(ctx, rep),
        "C17" => bytecode::c17(ctx, rep),
        "selftest" => common::selftest(ctx, rep),
        _ => return false,
    }
    true
}
