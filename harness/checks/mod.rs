//! One module per group of properties; `dispatch` routes a check name to it.

pub mod bytecode;
pub mod common;
pub mod judge;
pub mod lang;
pub mod lang2;
pub mod robust;
pub mod source;
pub mod staged;
pub mod vm;

use super::{Ctx, Report};

pub fn dispatch(ctx: &Ctx, rep: &mut Report) -> bool {
    match ctx.check.as_str() {
        "C01" => source::c01(ctx, rep),
        "C12" => source::c12(ctx, rep),
        "C09" => lang::c09(ctx, rep),
        "C13" => lang::c13(ctx, rep),
        "C15" => lang::c15(ctx, rep),
        "C14" => lang2::c14(ctx, rep),
        "C07" => lang2::c07(ctx, rep),
        "C06" => staged::c06(ctx, rep),
        "C06calibrate" => staged::calibrate(ctx, rep),
        "C10" => robust::c10(ctx, rep),
        "C10dump" => robust::c10_dump(ctx, rep),
        "miri-smoke" => robust::miri_smoke(ctx, rep),
        "C11" => robust::c11(ctx, rep),
        "C16" => robust::c16(ctx, rep),
        "C05" => vm::c05(ctx, rep),
        "C08" => vm::c08(ctx, rep),
        "C02" => bytecode::c02(ctx, rep),
        "C03" => bytecode::c03(ctx, rep),
        "C04" => bytecode::c04(ctx, rep),
        "C17" => bytecode::c17(ctx, rep),
        "selftest" => common::selftest(ctx, rep),
        "stress-time" => {
            // development aid: where does the time go on the stress shapes
            for (name, src) in common::stress_sources() {
                let ast = match super::real::parse(&src) { Ok(a) => a, Err(_) => continue };
                let t0 = std::time::Instant::now();
                let out = super::refsem::run(&ast, common::big_limits());
                let t1 = std::time::Instant::now();
                let pl = super::real::pipeline_from_ast(&ast, common::cap_for(&out), true);
                let t2 = std::time::Instant::now();
                let mut rng = ctx.rng("st", 1);
                let prog = super::altcc::compile(&ast, &mut rng);
                let mut t4 = t2; let mut t5 = t2;
                let t3 = std::time::Instant::now();
                if let Ok(prog) = &prog {
                    let vo = super::refvm::run_prog(prog, common::cap_for(&out) * 2);
                    t4 = std::time::Instant::now();
                    let real = super::real::load(&super::bcfmt::write(prog));
                    if let Ok(real) = real { let _ = super::lockstep::run(&real, prog, common::cap_for(&out) * 2); }
                    t5 = std::time::Instant::now();
                    println!("    {} refvm: steps={} capped={} status={:?}", name, vo.steps, vo.capped, vo.status);
                } else if let Err(e) = &prog {
                    println!("    {} altcc refuses: {}", name, e);
                }
                println!("{:28} refsem {:6} ms steps {:8} | real {:6} ms ok={} | altcc {:5} ms | refvm {:6} ms | lockstep {:6} ms", name, (t1 - t0).as_millis(), out.steps, (t2 - t1).as_millis(), pl.run.as_ref().map(|r| r.ok).unwrap_or(false), (t3 - t2).as_millis(), (t4 - t3).as_millis(), (t5 - t4).as_millis());
            }
        }
        "stress-dump" => {
            for (i, (name, src)) in common::stress_sources().into_iter().enumerate() {
                let _ = std::fs::write(ctx.work.join(format!("stress-{:02}-{}.fml", i, name)), src);
                rep.evaluations += 1;
            }
        }
        _ => return false,
    }
    true
}
