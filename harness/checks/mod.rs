//! One module per group of properties; `dispatch` routes a check name to it.

pub mod bytecode;
pub mod common;
pub mod judge;
pub mod lang;
pub mod lang2;
pub mod robust;
pub mod source;
pub mod staged;
pub mod vm;

use super::{Ctx, Report};

pub fn dispatch(ctx: &Ctx, rep: &mut Report) -> bool {
    match ctx.check.as_str() {
        "C01" => source::c01(ctx, rep),
        "C12" => source::c12(ctx, rep),
        "C09" => lang::c09(ctx, rep),
        "C13" => lang::c13(ctx, rep),
        "C15" => lang::c15(ctx, rep),
        "C14" => lang2::c14(ctx, rep),
        "C07" => lang2::c07(ctx, rep),
        "C06" => staged::c06(ctx, rep),
        "C06calibrate" => staged::calibrate(ctx, rep),
        "C10" => robust::c10(ctx, rep),
        "C10dump" => robust::c10_dump(ctx, rep),
        "miri-smoke" => robust::miri_smoke(ctx, rep),
        "C11" => robust::c11(ctx, rep),
        "C16" => robust::c16(ctx, rep),
        "C05" => vm::c05(ctx, rep),
        "C08" => vm::c08(ctx, rep),
        "C02" => bytecode::c02(ctx, rep),
        "C03" => bytecode::c03(ctx, rep),
        "C04" => bytecode::c04(ctx, rep),
        "C17" => bytecode::c17(ctx, rep),
        "selftest" => common::selftest(ctx, rep),
        "stress-dump" => {
            for (i, (name, src)) in common::stress_sources().into_iter().enumerate() {
                let _ = std::fs::write(ctx.work.join(format!("stress-{:02}-{}.fml", i, name)), src);
                rep.evaluations += 1;
            }
        }
        _ => return false,
    }
    true
}
