//! C14 (object model) and C07 (parsing).

use crate::parser::{Identifier, AST};
use serde_json::json;

use super::super::gen;
use super::super::printer::{self, op_level, Parens, Style, OPERATORS};
use super::super::rng::{hash_str, Rng};
use super::super::{cli, real, Ctx, Report};
use super::judge::*;

// ---------------------------------------------------------------------------------------------
// C14

const C14_OPS: [&str; 7] = ["+", "-", "*", "==", "<", "&", "|"];

struct Level {
    methods: Vec<String>,
}

fn c14_program(rng: &mut Rng) -> String {
    let mut s = String::new();
    s.push_str("function mutate(o, v) -> o.tag <- v;\nfunction setp(a) -> begin a <- 99; a end;\nfunction ident(o) -> o;\n");
    // one literal instantiated on many chains, and an overriding literal
    s.push_str("function wrap(p) -> object extends p begin let w = 1; end;\nfunction over(p, v) -> object extends p begin let val = v; function m0() -> this.val; function mv() -> this.val; end;\n");
    let base = rng.below(6);
    let base_expr = match base {
        0 => "null".to_string(),
        1 => format!("{}", rng.range(-5, 50)),
        2 => (if rng.coin() { "true" } else { "false" }).to_string(),
        3 => format!("array(3, {})", rng.range(0, 9)),
        _ => String::new(),
    };
    let depth = 1 + rng.below(5);
    let mut levels: Vec<Level> = Vec::new();
    let start = if base >= 4 { 0 } else { 1 };
    if start == 1 {
        s.push_str(&format!("let c0 = {};\n", base_expr));
        levels.push(Level { methods: vec![] });
    }
    for i in start..=depth {
        let mut methods: Vec<String> = Vec::new();
        let mut body = String::new();
        body.push_str(&format!("let f{} = {}; let tag = {}; ", i, i * 10, i));
        // `mv` has a different parameter count at different levels
        if rng.chance(1, 2) {
            let ar = rng.below(3);
            let ps: Vec<String> = (0..ar).map(|q| format!("q{}", q)).collect();
            body.push_str(&format!("function mv({}) -> begin print(\"L{}.mv/{};\"); {} end; ", ps.join(", "), i, ar, i * 100 + 50 + ar));
            methods.push("mv".to_string());
        }
        let pool: Vec<String> =
            ["m0", "m1", "m2", "get", "set", "bump", "add", "eq"].iter().map(|x| x.to_string()).chain(C14_OPS.iter().map(|x| x.to_string())).collect();
        for name in pool {
            if !rng.chance(2, 5) {
                continue;
            }
            let ret = i * 100 + methods.len();
            let def = match name.as_str() {
                "m0" => format!("function m0() -> begin print(\"L{}.m0 f=~;\", this.f{}); {} end; ", i, i, ret),
                "m1" => format!("function m1(a) -> begin print(\"L{}.m1(~) f=~;\", a, this.f{}); {} end; ", i, i, ret),
                "m2" => format!("function m2(a, b) -> begin print(\"L{}.m2(~,~) t=~;\", a, b, this.tag); {} end; ", i, ret),
                "get" => format!("function get(i) -> begin print(\"L{}.get(~);\", i); this.f{} + i end; ", i, i),
                "set" => format!("function set(i, v) -> begin print(\"L{}.set(~,~);\", i, v); this.f{} <- v end; ", i, i),
                "bump" => format!("function bump() -> this.f{} <- this.f{} + 1; ", i, i),
                "add" | "eq" => format!("function {}(o) -> begin print(\"L{}.{}(~) t=~;\", o, this.tag); {} end; ", name, i, name, ret),
                op => format!("function {}(o) -> begin print(\"L{}.{}(~) t=~;\", o, this.tag); {} end; ", op, i, op, ret),
            };
            body.push_str(&def);
            methods.push(name);
        }
        if i == 0 {
            s.push_str(&format!("let c0 = object begin {}end;\n", body));
        } else {
            s.push_str(&format!("let c{} = object extends c{} begin {}end;\n", i, i - 1, body));
        }
        levels.push(Level { methods });
    }
    let top = depth;
    let mut uniq = 0usize;
    let n_ops = 4 + rng.below(8);
    let mut failing_last: Option<String> = None;
    for _ in 0..n_ops {
        let j = rng.below(top + 1);
        let has_obj = |k: usize| !(start == 1 && k == 0);
        uniq += 1;
        let u = uniq;
        match rng.below(20) {
            17 if rng.coin() => {
                // the nearest `mv` decides, whatever its parameter count; a mismatch fails
                let args = ["", "1", "1, 2"][rng.below(3)];
                s.push_str(&format!("print(\"=~\\n\", c{}.mv({}));\n", j, args));
            }
            18 if rng.coin() => {
                // the same literal on chains of different shape: resolve deep first, then a nearer override
                let d = 1 + rng.below(3);
                let mut deep = format!("c{}", j);
                let mut near = format!("over(c{}, {})", j, 7000 + u);
                for q in 0..d {
                    deep = format!("wrap({})", deep);
                    if q + 1 < d {
                        near = format!("wrap({})", near);
                    }
                }
                s.push_str(&format!("let dp{} = {};\nlet nr{} = wrap({});\n", u, deep, u, near));
                let m = if levels.iter().take(j + 1).any(|l| l.methods.iter().any(|x| x == "m0")) { "m0" } else { "mv" };
                s.push_str(&format!("print(\"=~ \", nr{}.{}());\nprint(\"=~ \", dp{}.{}());\nprint(\"=~\\n\", nr{}.{}());\n", u, m, u, m, u, m));
            }
            19 if levels.iter().take(j + 1).any(|l| l.methods.iter().any(|x| x == "add" || x == "eq")) || base == 1 => {
                let m = if rng.coin() { "add" } else { "eq" };
                s.push_str(&format!("print(\"=~\\n\", c{}.{}(3));\n", j, m));
            }
            0 | 1 => {
                let avail: Vec<&str> = ["m0", "m1", "m2", "bump"].iter().cloned().filter(|m| levels.iter().take(j + 1).any(|l| l.methods.iter().any(|x| x == m))).collect();
                let m = if !avail.is_empty() && !rng.chance(1, 12) { *rng.pick(&avail) } else { *rng.pick(&["m0", "m1", "m2", "bump"]) };
                let args = match m {
                    "m1" => "7".to_string(),
                    "m2" => "7, 8".to_string(),
                    _ => String::new(),
                };
                s.push_str(&format!("print(\"=~\\n\", c{}.{}({}));\n", j, m, args));
            }
            2 | 3 => {
                let avail: Vec<&str> = C14_OPS.iter().cloned().filter(|m| levels.iter().take(j + 1).any(|l| l.methods.iter().any(|x| x == m))).collect();
                let op = if !avail.is_empty() && !rng.chance(1, 8) { *rng.pick(&avail) } else { *rng.pick(&C14_OPS) };
                let arg = match rng.below(3) {
                    0 => "1".to_string(),
                    1 => "true".to_string(),
                    _ => format!("c{}", rng.below(top + 1)),
                };
                s.push_str(&format!("print(\"=~\\n\", c{} {} {});\n", j, op, arg));
            }
            3 if rng.chance(1, 3) => {
                // an operator expression over variables as an array initializer runs once per element
                let avail: Vec<&str> = C14_OPS.iter().cloned().filter(|m| levels.iter().take(j + 1).any(|l| l.methods.iter().any(|x| x == m))).collect();
                if !avail.is_empty() {
                    let op = *rng.pick(&avail);
                    s.push_str(&format!("let one{} = 1; print(\"=~\\n\", array({}, c{} {} one{}));\n", u, rng.below(4), j, op, u));
                }
            }
            4 => {
                let ok = base == 3 || levels.iter().take(j + 1).any(|l| l.methods.iter().any(|x| x == "get"));
                if ok || rng.chance(1, 10) {
                    s.push_str(&format!("print(\"=~\\n\", c{}[{}]);\n", j, rng.below(3)))
                }
            }
            5 => {
                let ok = base == 3 || levels.iter().take(j + 1).any(|l| l.methods.iter().any(|x| x == "set"));
                if ok || rng.chance(1, 10) {
                    s.push_str(&format!("print(\"=~\\n\", c{}[{}] <- {});\nprint(\"~\\n\", c{});\n", j, rng.below(3), 40 + u, j))
                }
            }
            6 => {
                if has_obj(j) {
                    s.push_str(&format!("print(\"f=~ tag=~\\n\", c{}.f{}, c{}.tag);\n", j, j, j));
                }
            }
            7 => {
                if has_obj(j) {
                    s.push_str(&format!("let al{} = c{}; al{}.f{} <- {}; print(\"alias ~ ~\\n\", c{}.f{}, al{}.f{});\n", u, j, u, j, 70 + u, j, j, u, j));
                }
            }
            8 => {
                if has_obj(j) {
                    s.push_str(&format!(
                        "let box{} = array(2, c{}); box{}[0].f{} <- {}; print(\"elem ~ ~ ~\\n\", c{}.f{}, box{}[1].f{}, box{});\n",
                        u, j, u, j, 80 + u, j, j, u, j, u
                    ));
                }
            }
            9 => {
                if has_obj(j) {
                    s.push_str(&format!(
                        "let hold{} = object begin let h = c{}; end; hold{}.h.f{} <- {}; print(\"field ~ ~\\n\", c{}.f{}, hold{});\n",
                        u, j, u, j, 90 + u, j, j, u
                    ));
                }
            }
            10 => {
                if has_obj(j) {
                    s.push_str(&format!("mutate(c{}, {}); print(\"arg ~\\n\", c{}.tag);\n", j, 60 + u, j));
                    s.push_str(&format!("mutate(ident(c{}), {}); print(\"arg2 ~\\n\", c{}.tag);\n", j, 160 + u, j));
                }
            }
            11 => {
                if levels.iter().take(j + 1).any(|l| l.methods.iter().any(|x| x == "bump")) || rng.chance(1, 10) {
                    s.push_str(&format!("c{}.bump(); c{}.bump(); print(\"bumped ~\\n\", c{});\n", j, j, j));
                }
            }
            12 => s.push_str(&format!(
                "let p{} = {}; let q{} = p{}; q{} <- q{} + 1; print(\"prim ~ ~ ~ ~\\n\", p{}, q{}, setp(p{}), p{});\n",
                u, u, u, u, u, u, u, u, u, u
            )),
            13 => s.push_str(&format!("print(\"~\\n\", c{});\n", j)),
            14 => {
                // explicit method syntax for operators and get/set
                let has = |m: &str| levels.iter().take(j + 1).any(|l| l.methods.iter().any(|x| x == m));
                let form = match rng.below(3) {
                    0 if has("+") || base == 1 => format!("c{}.+(2)", j),
                    1 if has("get") || base == 3 => format!("c{}.get(1)", j),
                    2 if has("set") || base == 3 => format!("c{}.set(0, {})", j, u),
                    _ => format!("c{}.tag", if has_obj(j) { j } else { top }),
                };
                s.push_str(&format!("print(\"=~\\n\", {});\n", form));
            }
            15 if base == 3 || levels.iter().any(|l| l.methods.iter().any(|x| x == "set")) => {
                // a method reached through the chain mutates the object that holds it
                s.push_str(&format!("c{}.set(1, {}); print(\"chain ~\\n\", c{});\n", top, 300 + u, top));
            }
            16 if rng.coin() => {
                // a built-in reached through the chain checks its argument count too
                let form = match base {
                    1 => format!("c{}.{}(1, 2)", j, *rng.pick(&["+", "*", "==", "<"])),
                    2 => format!("c{}.{}(true, false)", j, *rng.pick(&["&", "|", "=="])),
                    3 => format!("c{}.{}", j, *rng.pick(&["get(0, 1)", "set(0)", "get()"])),
                    _ => format!("c{}.m1()", j),
                };
                let shadowed = ["+", "*", "==", "<", "&", "|", "get", "set"].iter().any(|m| form.contains(&format!(".{}(", m)) && levels.iter().take(j + 1).any(|l| l.methods.iter().any(|x| x == m)));
                if !shadowed {
                    failing_last = Some(format!("print(\"=~\\n\", {});\n", form));
                }
            }
            16 => failing_last = Some(format!("print(\"=~\\n\", c{}.m1());\n", j)),
            17 => failing_last = Some(format!("print(\"=~\\n\", c{}.m0(1, 2));\n", j)),
            18 => failing_last = Some(format!("print(\"=~\\n\", c{}.nosuch(1));\n", j)),
            _ => {
                if j > 0 {
                    failing_last = Some(format!("print(\"=~\\n\", c{}.f{});\n", j, j - 1));
                }
            }
        }
    }
    if let Some(f) = failing_last {
        if rng.chance(1, 3) {
            s.push_str(&f);
            s.push_str("print(\"unreachable?\\n\");\n");
        }
    }
    s
}

/// identifier pairs that collide under a widely used 32-bit string hash (FNV-1a, FNV-1, djb2, sdbm, one-at-a-time,
/// ELF/PJW, MurmurHash3, Adler-32, CRC-32, Java's hashCode) or under order-insensitive sums (anagrams): whatever a VM
/// derives from a name, two different names are two different members / variables / functions
pub const COLLIDING_NAMES: [(&str, &str); 28] = [
    ("liquid", "costarring"), ("declinate", "macallums"), ("altarage", "zinke"), ("hjguzui", "rwfikrwl"), ("oshnqyng", "bsfish"), ("hetairas", "mentioner"), ("heliotropes", "neurospora"),
    ("depravement", "serafins"), ("stylist", "subgenera"), ("bxtqkl", "axgfqha"), ("nibtrrb", "foahe"), ("fqinyeme", "mhzqtv"), ("zqlcyds", "dysgopww"), ("xkpur", "xkpvb"), ("jxcwt", "jwswt"),
    ("pqbjfr", "sceal"), ("gafgmvn", "pppplwp"), ("vcnxl", "vapzj"), ("icfwsgf", "cczhpnc"), ("plumless", "buckeroo"), ("Aa", "BB"), ("AaAa", "BBBB"), ("AaBB", "BBAa"), ("ab", "ba"), ("listen", "silent"),
    ("a1b", "a2a"), ("ad", "bc"), ("x_1", "x1_"),
];

/// One program per pair and role: the two names as methods on different levels of a chain (and the second one missing), as
/// fields, as globals, as functions, as locals and parameters.
pub fn collision_program(a: &str, b: &str) -> String {
    format!(
        "let base = object begin function {b}(x) -> 2000 + x; let {b} = 20; end;\nlet child = object extends base begin function {a}(x) -> 1000 + x; let {a} = 10; end;\nprint(\"~ ~ ~ ~\\n\", child.{a}(1), child.{b}(2), child.{a}, base.{b});\nlet {a} = 1; let {b} = 2; {a} <- {a} + 10; print(\"~ ~\\n\", {a}, {b});\nfunction f_{a}({a}, {b}) -> begin let l_{a} = {a} * 2; let l_{b} = {b} * 3; l_{a} * 100 + l_{b} end;\nfunction f_{b}(q) -> q + 7;\nprint(\"~ ~\\n\", f_{a}(3, 4), f_{b}(1));\nlet both = object begin let {a} = 5; let {b} = 6; function {a}() -> 7; function {b}() -> 8; end;\nboth.{a} <- 50;\nprint(\"~ ~ ~ ~ ~\\n\", both.{a}, both.{b}, both.{a}(), both.{b}(), both);\nprint(\"before\\n\");\nlet only = object begin function {a}() -> 1; end;\nprint(\"~\\n\", only.{b}());\nprint(\"not reached\\n\");\n",
        a = a,
        b = b
    )
}

/// method names a value might be expected to answer, but which FML does not define on primitives and arrays
pub const EXTRA_METHOD_NAMES: [&str; 72] = [
    "length", "len", "size", "count", "push", "pop", "append", "add_all", "insert", "remove", "clear", "first", "last", "head", "tail", "at", "put", "fill", "copy", "clone", "slice", "concat", "reverse", "sort", "map",
    "each", "contains", "index_of", "is_empty", "to_string", "toString", "str", "show", "print", "println", "equals", "compare", "hash", "not", "neg", "negate", "abs", "min", "max", "pow", "sqrt", "inc", "dec", "succ",
    "pred", "is_null", "is_int", "is_array", "type", "class", "parent", "super", "self", "this", "xor", "shl", "shr", "lte", "gte", "ne", "equal", "plus", "minus", "times", "divide", "modulo", "length_",
];

/// One access site, many receivers: helper functions whose single field read / field write / method
/// call / operator / index instruction is executed with receivers of different layouts (same field
/// names in another order or at another position, own versus inherited methods, objects overriding
/// operators and get/set next to integers and arrays), in varying order and repeatedly. Anything a VM
/// remembers per site or per name must not leak from one receiver to the next.
pub fn poly_program(rng: &mut Rng) -> String {
    let mut s = String::from(
        "function getx(o) -> o.x;\nfunction setx(o, v) -> o.x <- v;\nfunction gety(o) -> o.y;\nfunction callm(o, a) -> o.m(a);\nfunction plus(a, b) -> a + b;\nfunction less(a, b) -> a < b;\nfunction at(c, i) -> c[i];\nfunction put(c, i, v) -> c[i] <- v;\n",
    );
    let pool = ["x", "y", "z", "w", "q", "r"];
    let nobj = 3 + rng.below(4);
    let mut with_plus: Vec<usize> = Vec::new();
    let mut with_get: Vec<usize> = Vec::new();
    for k in 0..nobj {
        // x and y always present, at random positions among 0–4 other fields
        let mut fields: Vec<&str> = vec!["x", "y"];
        for f in pool[2..].iter() {
            if rng.chance(1, 2) {
                fields.push(f);
            }
        }
        rng.shuffle(&mut fields);
        let parent = if k > 0 && rng.chance(1, 3) { format!(" extends o{}", rng.below(k)) } else { String::new() };
        s.push_str(&format!("let o{} = object{} begin ", k, parent));
        for (j, f) in fields.iter().enumerate() {
            s.push_str(&format!("let {} = {}; ", f, (k + 1) * 100 + j * 10 + match *f { "x" => 1, "y" => 2, _ => 3 }));
        }
        // some objects define m (reading a different field each), some inherit or lack it (then m comes from the parent only)
        if parent.is_empty() || rng.chance(1, 2) {
            let which = fields[rng.below(fields.len())];
            s.push_str(&format!("function m(a) -> this.{} + a; ", which));
        }
        if rng.chance(1, 3) {
            s.push_str(&format!("function +(b) -> {}; function <(b) -> {}; ", 7000 + k, if k % 2 == 0 { "true" } else { "false" }));
            with_plus.push(k);
        }
        if rng.chance(1, 3) {
            s.push_str(&format!("function get(i) -> this.{} + i; function set(i, v) -> this.{} <- v; ", fields[0], fields[fields.len() - 1]));
            with_get.push(k);
        }
        s.push_str("end;\n");
    }
    s.push_str("let arr = array(4, 40);\nlet arr2 = array(2, o0);\n");
    let obj = |rng: &mut Rng| format!("o{}", rng.below(nobj));
    let steps = 8 + rng.below(14);
    for st in 0..steps {
        let line = match rng.below(9) {
            0 => format!("print(\"g{} ~ ~\\n\", getx({}), getx({}));\n", st, obj(rng), obj(rng)),
            1 => format!("print(\"s{} ~\\n\", setx({}, {}));\n", st, obj(rng), st * 3),
            2 => format!("print(\"y{} ~ ~ ~\\n\", gety({}), gety({}), gety({}));\n", st, obj(rng), obj(rng), obj(rng)),
            3 => format!("print(\"m{} ~ ~\\n\", callm({}, {}), callm({}, 1));\n", st, obj(rng), st, obj(rng)),
            4 => {
                // operators: integers and (only objects that define +) objects at the same site
                let third = if with_plus.is_empty() { "plus(0, 0)".to_string() } else { format!("plus(o{}, {})", with_plus[rng.below(with_plus.len())], st) };
                let fourth = if with_plus.is_empty() { "less(1, 2)".to_string() } else { format!("less(o{}, 1)", with_plus[rng.below(with_plus.len())]) };
                format!("print(\"p{} ~ ~ ~ ~ ~\\n\", plus({}, 2), {}, plus(getx({}), gety({})), {}, less({}, 5));\n", st, st, third, obj(rng), obj(rng), fourth, st)
            }
            5 => {
                let third = if with_get.is_empty() { "at(arr, 0)".to_string() } else { format!("at(o{}, {})", with_get[rng.below(with_get.len())], st) };
                format!("print(\"a{} ~ ~ ~ ~\\n\", at(arr, {}), {}, at(arr2, {}), at(arr, {}));\n", st, rng.below(4), third, rng.below(2), rng.below(4))
            }
            6 => {
                let third = if with_get.is_empty() { String::new() } else { format!(" put(o{}, {}, {});", with_get[rng.below(with_get.len())], st, st * 7) };
                format!("put(arr, {}, {});{} put(arr2, {}, {});\n", rng.below(4), st, third, rng.below(2), obj(rng))
            }
            7 => {
                // the same sites alternating between two receivers inside a loop
                let (a, b) = (obj(rng), obj(rng));
                format!("let i{st} = 0; while i{st} < 5 do begin let t = if i{st} % 2 == 0 then {a} else {b}; print(\"l{st} ~ ~ ~;\", getx(t), gety(t), setx(t, i{st})); i{st} <- i{st} + 1 end; print(\"\\n\");\n", st = st, a = a, b = b)
            }
            _ => format!("print(\"o{} ~\\n\", {});\n", st, obj(rng)),
        };
        s.push_str(&line);
    }
    s.push_str("print(\"end\");\n");
    for k in 0..nobj {
        s.push_str(&format!("print(\" ~\", o{});\n", k));
    }
    s.push_str("print(\" ~ ~\\n\", arr, arr2);\n");
    s
}

pub fn c14(ctx: &Ctx, rep: &mut Report) {
    if let Some(r) = &ctx.replay {
        if let Some(src) = r.get("src").and_then(|s| s.as_str()) {
            match real::parse(src) {
                Ok(ast) => {
                    let mut rng = ctx.rng("replay", 0);
                    let j = judge(rep, "C14", "replay", &ast, src, &mut rng, JudgeOpts::full());
                    if r.get("via").and_then(|v| v.as_str()) == Some("cli") {
                        let dir = ctx.scratch("replay");
                        judge_cli(rep, "C14", "replay", src, &j.outcome, &dir, 0);
                        judge_cli(rep, "C14", "replay", src, &j.outcome, &dir, 1);
                    }
                }
                Err(e) => rep.notes.push(format!("replay does not parse: {}", e)),
            }
        }
        return;
    }
    let dir = ctx.scratch("c14");
    // the deterministic object-model shapes (name clashes between fields, methods and built-ins,
    // resolution depths, one site with many receivers …), in-process and through the CLI
    let mut ks = 0u64;
    for (name, src) in super::common::stress_sources() {
        let wanted = [
            "member-name-clashes", "polymorphic-sites", "methods-named-like-builtins", "method-resolution-depths", "this-chains-and-self-fields", "readme-objects", "constructor-instances",
            "same-text-function-and-method", "one-literal-many-chains", "shared-values", "nested-object-literals", "method-254-args", "many-methods", "many-fields",
            "linked-structures", "tail-call-shapes", "fields-named-like-later-globals", "one-name-everywhere", "this-escapes", "parents-of-every-kind", "reentrant-methods-and-tail-calls",
            "algebraic-identities", "child-in-parents-field", "block-and-conditional-receivers", "aliasing-through-containers", "deep-argument-nesting",
        ];
        if !wanted.contains(&name.as_str()) {
            continue;
        }
        ks += 1;
        if !ctx.mine(ks) {
            continue;
        }
        if let Ok(ast) = real::parse(&src) {
            let mut rng = ctx.rng("C14stress", ks);
            let j = judge(rep, "C14", &format!("stress:{}", name), &ast, &src, &mut rng, JudgeOpts::full());
            if j.judged {
                judge_cli(rep, "C14", &format!("stress:{}", name), &src, &j.outcome, &dir, ks);
                rep.bump("c14-generator", "fixed object-model shapes");
            } else {
                rep.inconsistency(format!("fixed object-model shape {} is not judged by the reference: {:?}", name, j.outcome.res));
            }
        }
    }
    // primitives and arrays supply exactly their documented built-ins: every other plausible method
    // name fails at the end of the chain (directly, and through objects extending the value),
    // with 0, 1 and 2 arguments
    let mut kb = 0u64;
    let receivers = [
        "1", "true", "null", "array(2, 5)", "(object extends array(2, 5) begin let own = 1; end)", "(object extends 7 begin end)", "(object extends (object extends null begin end) begin end)",
        "(object extends true begin function known() -> 1; end)",
    ];
    for recv in receivers.iter() {
        for name in EXTRA_METHOD_NAMES.iter() {
            for nargs in 0..3usize {
                kb += 1;
                if !ctx.mine(kb) || (ctx.quick() && (kb.wrapping_mul(0x9E37_79B9_7F4A_7C15).wrapping_add(ctx.seed) >> 24) % 3 != 0) {
                    continue;
                }
                let args: Vec<String> = (0..nargs).map(|a| (a + 1).to_string()).collect();
                let src = format!("print(\"before\\n\");\nlet r = {};\nprint(\"~\\n\", r.{}({}));\nprint(\"after\\n\");\n", recv, name, args.join(", "));
                match real::parse(&src) {
                    Ok(ast) => {
                        let mut rng = ctx.rng("C14builtins", kb);
                        let j = judge(rep, "C14", &format!("no-extra-builtin:{}.{}/{}", recv, name, nargs), &ast, &src, &mut rng, JudgeOpts::fast());
                        if j.judged {
                            rep.bump("c14-no-extra-builtins", if j.outcome.failed() { "must fail" } else { "defined" });
                        }
                    }
                    Err(_) => rep.skip("method name not expressible in source"),
                }
            }
        }
    }
    // names that collide under common string hashes, in every role
    for (a, b) in COLLIDING_NAMES.iter() {
        for (x, y) in [(a, b), (b, a)].iter() {
            kb += 1;
            if !ctx.mine(kb) {
                continue;
            }
            let src = collision_program(x, y);
            match real::parse(&src) {
                Ok(ast) => {
                    let mut rng = ctx.rng("C14collide", kb);
                    let j = judge(rep, "C14", &format!("colliding-names:{}/{}", x, y), &ast, &src, &mut rng, JudgeOpts::full());
                    if j.judged {
                        rep.bump("c14-generator", "hash-colliding names");
                    } else {
                        rep.inconsistency(format!("colliding-names program {}/{} is not judged: {:?}", x, y, j.outcome.res));
                    }
                }
                Err(e) => rep.inconsistency(format!("colliding-names program {}/{} does not parse: {}", x, y, e)),
            }
        }
    }
    let n = ctx.share(150_000, 4_000_000);
    let cli_every = (n / if ctx.quick() { 10 } else { 300 }).max(1);
    for i in 0..n {
        if i % 128 == 0 && ctx.out_of_time() && i > n / 10 {
            rep.notes.push(format!("time budget reached after {} of {} programs", i, n));
            break;
        }
        let mut rng = ctx.rng("C14", i);
        let poly = i % 4 == 3;
        let src = if poly { poly_program(&mut rng) } else { c14_program(&mut rng) };
        rep.bump("c14-generator", if poly { "polymorphic access sites" } else { "object model" });
        let ast = match real::parse(&src) {
            Ok(a) => a,
            Err(e) => {
                rep.evaluations += 1;
                rep.violation("C14:parse-rejects", format!("object-model program rejected by the parser: {}\n{}", e, src), json!({"check":"C14","src":src}));
                continue;
            }
        };
        let o = if i % 5 == 0 { JudgeOpts::full() } else { JudgeOpts::fast() };
        let j = judge(rep, "C14", &format!("objects#{}", i), &ast, &src, &mut rng, o);
        if j.judged {
            for line in j.outcome.out.split('\n') {
                let key = line.split(|c| c == ' ' || c == '(' || c == ';').next().unwrap_or("");
                if key.starts_with('L') && key.len() < 12 {
                    rep.bump("c14-methods-dispatched", &key[key.find('.').map(|p| p + 1).unwrap_or(0)..]);
                } else if ["alias", "elem", "field", "arg", "arg2", "bumped", "prim", "chain"].contains(&key) {
                    rep.bump("c14-aliasing", key);
                }
            }
            rep.bump("c14-outcome", if j.outcome.failed() { "expected-failure" } else { "success" });
            if i % cli_every == 0 {
                judge_cli(rep, "C14", &format!("objects#{}", i), &src, &j.outcome, &dir, i);
            }
            if rep.samples.len() < 2 && src.len() < 1800 && j.outcome.out.len() > 60 {
                rep.sample(json!({"src": src, "expected_stdout": j.outcome.out, "expected_success": !j.outcome.failed()}));
            }
        }
    }
    // the general generator's object programs as well
    let n2 = ctx.share(30_000, 1_000_000);
    for i in 0..n2 {
        if i % 128 == 0 && ctx.out_of_time() {
            break;
        }
        let mut rng = ctx.rng("C14g", i);
        let mut o = gen::GenOpts::default();
        o.objects = true;
        o.budget = 110;
        let ast = gen::well_behaved(&mut rng, o);
        if let Ok(src) = printer::to_source(&ast) {
            judge(rep, "C14", &format!("general#{}", i), &ast, &src, &mut rng, JudgeOpts::fast());
        }
    }
}

// ---------------------------------------------------------------------------------------------
// C07

fn idn(s: &str) -> Identifier {
    Identifier::from(s)
}

/// Independent precedence-climbing parser for `a o1 b o2 c o3 d` (README table; all
/// six comparison operators on the comparison level; everything left-associative).
fn climb(operands: &[&str], ops: &[&str]) -> AST {
    fn parse_level(operands: &[&str], ops: &[&str], pos: &mut usize, min: u8) -> AST {
        let mut left = AST::access_variable(Identifier::from(operands[*pos]));
        loop {
            if *pos >= ops.len() {
                return left;
            }
            let op = ops[*pos];
            let l = op_level(op).unwrap();
            if l < min {
                return left;
            }
            *pos += 1;
            // right operand: everything binding tighter than `op`
            let right = parse_level(operands, ops, pos, l + 1);
            left = AST::call_method(left, Identifier::from(op), vec![right]);
        }
    }
    let mut pos = 0;
    parse_level(operands, ops, &mut pos, 0)
}

fn c07_roundtrip(rep: &mut Report, origin: &str, ast: &AST, rng: &mut Rng, layouts: usize) {
    // minimal, full and random parenthesisation, plain and decorated layout
    let mut style_rng = rng.clone();
    let variants: Vec<(&str, Result<Vec<String>, String>)> = vec![
        ("minimal", printer::tokens(ast, Style { parens: Parens::Minimal, rng: None })),
        ("minimal-varied", printer::tokens(ast, Style { parens: Parens::Minimal, rng: Some(&mut style_rng) })),
        ("full", printer::tokens(ast, Style { parens: Parens::Full, rng: None })),
        ("random-parens", printer::tokens(ast, Style { parens: Parens::Random, rng: Some(&mut rng.clone()) })),
    ];
    for (vi, (vname, toks)) in variants.into_iter().enumerate() {
        let toks = match toks {
            Ok(t) => t,
            Err(_) => {
                rep.skip("ast-outside-parser-range");
                return;
            }
        };
        for layout in 0..layouts {
            if layout > 0 && vi % 2 == 1 && layouts <= 2 {
                continue;
            }
            rep.evaluations += 1;
            let src = if layout == 0 {
                printer::join_plain(&toks)
            } else if layout == 1 && vi % 2 == 0 {
                // no layout at all except where two tokens would merge
                printer::join_tight(&toks)
            } else {
                printer::join_decorated(&toks, rng)
            };
            match real::parse(&src) {
                Ok(back) => {
                    rep.conclusive += 1;
                    rep.bump("c07-variant", &format!("{}/{}", vname, if layout == 0 { "plain" } else { "decorated" }));
                    if toks.len() >= 12 {
                        rep.nontrivial(hash_str(&src));
                    }
                    if back != *ast {
                        rep.violation(
                            &format!("C07:{}-{}", vname, if layout == 0 { "plain" } else { "decorated" }),
                            format!("{}: printing ({}) and parsing again yields a different AST\n--- source:\n{}\n--- expected: {:?}\n--- parsed:   {:?}", origin, vname, cli::truncate(&src, 600), ast, back),
                            json!({"check":"C07","src":src,"expected_ast": serde_json::to_value(ast).unwrap_or_default()}),
                        );
                        return;
                    }
                }
                Err(e) => {
                    rep.conclusive += 1;
                    rep.violation(
                        &format!("C07:rejects-{}-{}", vname, if layout == 0 { "plain" } else { "decorated" }),
                        format!("{}: parser rejects the printed form ({}) of a parser-range AST: {}\n{}", origin, vname, cli::truncate(&e, 300), cli::truncate(&src, 600)),
                        json!({"check":"C07","src":src,"expected_ast": serde_json::to_value(ast).unwrap_or_default()}),
                    );
                    return;
                }
            }
        }
    }
}

const FML_KEYWORDS: [&str; 17] = ["begin", "end", "if", "then", "else", "let", "null", "print", "object", "extends", "while", "do", "function", "array", "true", "false", "this"];

/// words that are keywords, types or built-ins elsewhere (and identifiers in FML)
const OTHER_WORDS: [&str; 206] = [
    "elif", "elsif", "elseif", "elsif_", "unless", "until", "for", "foreach", "forall", "in", "of", "to", "downto", "step", "by", "return", "break", "continue", "next", "redo", "goto", "var", "val", "def", "defn", "fn", "func", "fun",
    "lambda", "proc", "sub", "method", "class", "new", "delete", "self", "super", "base", "not", "and", "or", "xor", "mod", "div", "rem", "shl", "shr", "is", "isnt", "as", "typeof", "instanceof", "sizeof", "repeat", "loop",
    "match", "case", "switch", "default", "when", "otherwise", "try", "catch", "except", "finally", "throw", "raise", "throws", "import", "export", "module", "package", "use", "using", "namespace", "include", "require", "from",
    "nil", "none", "void", "unit", "undefined", "nan", "inf", "int", "integer", "bool", "boolean", "string", "str", "char", "float", "double", "long", "short", "byte", "type", "struct", "enum", "union", "trait", "impl",
    "interface", "implements", "inherits", "abstract", "virtual", "override", "final", "sealed", "pub", "public", "private", "protected", "internal", "mut", "const", "static", "extern", "inline", "volatile", "register",
    "where", "with", "without", "yield", "async", "await", "defer", "go", "chan", "select", "fi", "done", "esac", "endif", "endwhile", "od", "endfunction", "endobject", "begins", "ends", "local", "global", "nonlocal",
    "pass", "assert", "del", "exec", "lambda_", "elifs", "ifelse", "iff", "then_", "otherwise_", "let_", "letrec", "rec", "set", "get", "put", "call", "apply", "eval", "quote", "cons", "car", "cdr", "list", "map", "filter",
    "fold", "reduce", "len", "length", "size", "push", "pop", "print_", "println", "printf", "puts", "echo", "write", "read", "input", "output", "main", "args", "argv", "exit", "halt", "abort", "panic", "error", "ok", "some",
    "maybe", "just", "nothing", "either", "left", "right", "arr", "obj",
];

pub fn c07(ctx: &Ctx, rep: &mut Report) {
    if let Some(r) = &ctx.replay {
        if let (Some(src), Some(exp)) = (r.get("src").and_then(|s| s.as_str()), r.get("expected_ast")) {
            rep.evaluations += 1;
            match (real::parse(src), serde_json::from_value::<AST>(exp.clone())) {
                (Ok(a), Ok(e)) => {
                    rep.conclusive += 1;
                    if a != e {
                        rep.violation("C07:replay", format!("parsed {:?} expected {:?}", a, e), r.clone());
                    }
                }
                (Err(e), Ok(_)) => rep.violation("C07:replay-rejects", format!("parser rejects: {}", e), r.clone()),
                _ => rep.notes.push("replay payload unreadable".into()),
            }
        }
        return;
    }
    // (1) exhaustive operator triples
    let names = ["a", "b", "c", "d"];
    let mut k = 0u64;
    for o1 in OPERATORS.iter() {
        for o2 in OPERATORS.iter() {
            for o3 in OPERATORS.iter() {
                k += 1;
                if !ctx.mine(k) {
                    continue;
                }
                rep.evaluations += 1;
                let src = format!("a {} b {} c {} d", o1, o2, o3);
                let expect = AST::top(vec![climb(&names, &[o1, o2, o3])]);
                match real::parse(&src) {
                    Ok(ast) => {
                        rep.conclusive += 1;
                        rep.nontrivial(hash_str(&src));
                        if ast != expect {
                            rep.violation(
                                "C07:precedence",
                                format!("`{}` parses to {:?}; the documented precedence/associativity gives {:?}", src, ast, expect),
                                json!({"check":"C07","src":src,"expected_ast": serde_json::to_value(&expect).unwrap_or_default()}),
                            );
                        }
                    }
                    Err(e) => rep.violation("C07:precedence-rejects", format!("`{}` is rejected: {}", src, e), json!({"check":"C07","src":src,"expected_ast": serde_json::to_value(&expect).unwrap_or_default()})),
                }
            }
        }
    }
    rep.count("operator_triples", 13 * 13 * 13);
    // (1b) every word that is not one of the 17 documented keywords is an identifier, in every
    // identifier position: all words of up to three lower-case letters, other languages' keywords and
    // type names, and near-misses of FML's own keywords
    let mut words: Vec<String> = Vec::new();
    let letters: Vec<char> = ('a'..='z').collect();
    for a in letters.iter() {
        words.push(a.to_string());
        for b in letters.iter() {
            words.push(format!("{}{}", a, b));
            for c in letters.iter() {
                words.push(format!("{}{}{}", a, b, c));
            }
        }
    }
    for w in OTHER_WORDS.iter() {
        words.push(w.to_string());
        let mut cap = w.to_string();
        cap[..1].make_ascii_uppercase();
        words.push(cap);
        words.push(w.to_uppercase());
    }
    for kw in FML_KEYWORDS.iter() {
        for v in [format!("{}_", kw), format!("_{}", kw), format!("{}1", kw), format!("{}s", kw), format!("{}{}", kw, kw), kw.to_uppercase(), format!("{}{}", kw[..1].to_uppercase(), &kw[1..]), format!("{}if", kw), format!("un{}", kw), format!("{}_{}", kw, kw)] {
            words.push(v);
        }
        for cut in 1..kw.len() {
            words.push(kw[..cut].to_string());
            words.push(kw[cut..].to_string());
        }
    }
    words.sort();
    words.dedup();
    words.retain(|w| !FML_KEYWORDS.contains(&w.as_str()));
    let mut kw = 0u64;
    for w in words.iter() {
        kw += 1;
        if !ctx.mine(kw) {
            continue;
        }
        rep.evaluations += 1;
        let id = || idn(w);
        let v = || AST::access_variable(idn(w));
        let expect = AST::top(vec![
            AST::variable(id(), AST::Integer(1)),
            AST::function(id(), vec![id()], v()),
            AST::variable(
                idn("o"),
                AST::object(AST::Null, vec![AST::variable(id(), AST::Integer(2)), AST::function(id(), vec![id(), idn("q")], AST::call_method(AST::access_field(AST::access_variable(idn("this")), id()), idn("+"), vec![v()]))]),
            ),
            AST::print("~ ~ ~\\n".into(), vec![v(), AST::call_function(id(), vec![v()]), AST::call_method(AST::access_variable(idn("o")), id(), vec![v(), AST::access_field(AST::access_variable(idn("o")), id())])]),
            AST::assign_field(AST::access_variable(idn("o")), id(), AST::conditional(v(), v(), v())),
            AST::assign_variable(id(), AST::access_array(v(), v())),
            AST::loop_de_loop(v(), v()),
        ]);
        let src = format!(
            "let {w} = 1;\nfunction {w}({w}) -> {w};\nlet o = object begin let {w} = 2; function {w}({w}, q) -> this.{w} + {w}; end;\nprint(\"~ ~ ~\\n\", {w}, {w}({w}), o.{w}({w}, o.{w}));\no.{w} <- if {w} then {w} else {w};\n{w} <- {w}[{w}];\nwhile {w} do {w}\n",
            w = w
        );
        match real::parse(&src) {
            Ok(ast) => {
                rep.conclusive += 1;
                rep.nontrivial(hash_str(&src));
                if ast != expect {
                    rep.violation("C07:identifier-word", format!("the word `{}` in identifier positions: parsed tree differs from the documented one", w), json!({"check":"C07","src":src,"expected_ast": serde_json::to_value(&expect).unwrap_or_default()}));
                }
            }
            Err(e) => rep.violation("C07:identifier-word-rejected", format!("`{}` is not a keyword, but a program that uses it as variable, parameter, field, function and method name is rejected: {}", w, e), json!({"check":"C07","src":src,"expected_ast": serde_json::to_value(&expect).unwrap_or_default()})),
        }
        rep.bump("c07-identifier-words", &format!("{} letters", w.len().min(8)));
    }
    // (1c) every white-space character on its own, between all tokens of a small program
    let plain_toks = ["let", "x", "=", "1", ";", "function", "f", "(", "a", ",", "b", ")", "->", "a", "+", "b", ";", "print", "(", "\"~ ~\\n\"", ",", "x", ",", "f", "(", "x", ",", "2", ")", ")", ";", "if", "x", "then", "begin", "x", "end", "else", "object", "begin", "let", "y", "=", "x", "end"];
    if let Ok(expect) = real::parse(&plain_toks.join(" ")) {
        for (wn, ws) in [
            ("space", " "), ("tab", "\t"), ("line feed", "\n"), ("carriage return", "\r"), ("CR LF", "\r\n"), ("form feed", "\u{c}"), ("vertical tab", "\u{b}"), ("NEL U+0085", "\u{85}"),
            ("no-break space U+00A0", "\u{a0}"), ("line separator U+2028", "\u{2028}"), ("paragraph separator U+2029", "\u{2029}"), ("em space U+2003", "\u{2003}"),
            ("ideographic space U+3000", "\u{3000}"), ("ogham space U+1680", "\u{1680}"), ("narrow no-break space U+202F", "\u{202f}"), ("en quad U+2000", "\u{2000}"), ("thin space U+2009", "\u{2009}"),
            ("medium mathematical space U+205F", "\u{205f}"), ("two blanks", "  "), ("blank line", "\n\n"),
        ]
        .iter()
        {
            kw += 1;
            if !ctx.mine(kw) {
                continue;
            }
            for form in 0..3 {
                rep.evaluations += 1;
                let src = match form {
                    0 => plain_toks.join(ws),
                    1 => format!("{}{}{}", ws, plain_toks.join(ws), ws),
                    _ => plain_toks.join(&format!(" {} ", ws)),
                };
                match real::parse(&src) {
                    Ok(ast) => {
                        rep.conclusive += 1;
                        rep.nontrivial(hash_str(&src));
                        if ast != expect {
                            rep.violation("C07:whitespace-kind", format!("with {} between the tokens the program parses to a different tree", wn), json!({"check":"C07","src":src,"expected_ast": serde_json::to_value(&expect).unwrap_or_default()}));
                        }
                    }
                    Err(e) => rep.violation("C07:whitespace-kind-rejected", format!("with {} between the tokens the program is rejected: {}", wn, e), json!({"check":"C07","src":src,"expected_ast": serde_json::to_value(&expect).unwrap_or_default()})),
                }
                rep.bump("c07-whitespace-kinds", wn);
            }
        }
    }
    // longer chains (4-9 operators), sampled, against the same independent climbing parser; written
    // with and without blanks
    let nc = ctx.share(100_000, 3_000_000);
    let pool = ["a", "b", "c", "d", "e", "f", "g", "h", "i", "j"];
    for i in 0..nc {
        let mut rng = ctx.rng("C07chain", i);
        let k = 4 + rng.below(6);
        let ops: Vec<&str> = (0..k).map(|_| OPERATORS[rng.below(13)]).collect();
        let operands: Vec<&str> = (0..=k).map(|j| pool[j]).collect();
        let mut src = String::from(operands[0]);
        let tight = i % 3 == 0;
        for j in 0..k {
            if tight {
                src.push_str(&format!("{}{}", ops[j], operands[j + 1]));
            } else {
                src.push_str(&format!(" {} {}", ops[j], operands[j + 1]));
            }
        }
        rep.evaluations += 1;
        let expect = AST::top(vec![climb(&operands, &ops)]);
        match real::parse(&src) {
            Ok(ast) => {
                rep.conclusive += 1;
                rep.nontrivial(hash_str(&src));
                if ast != expect {
                    rep.violation("C07:precedence-chain", format!("`{}` parses to {:?}; the documented precedence/associativity gives {:?}", src, ast, expect), json!({"check":"C07","src":src,"expected_ast": serde_json::to_value(&expect).unwrap_or_default()}));
                }
            }
            Err(e) => rep.violation("C07:precedence-chain-rejects", format!("`{}` is rejected: {}", src, e), json!({"check":"C07","src":src,"expected_ast": serde_json::to_value(&expect).unwrap_or_default()})),
        }
    }
    rep.count("operator_chains_4_to_9", nc);
    // documented shapes: a[i] / a[i] <- v are get/set calls in the *compiler*; at the AST level
    // they are AccessArray / AssignArray; chains nest left to right; else binds to nearest if
    if ctx.shard == 0 {
        let v = |s: &str| AST::access_variable(idn(s));
        let fixed: Vec<(&str, AST)> = vec![
            ("a.b.c", AST::access_field(AST::access_field(v("a"), idn("b")), idn("c"))),
            ("a.b.c.m(1)", AST::call_method(AST::access_field(AST::access_field(v("a"), idn("b")), idn("c")), idn("m"), vec![AST::Integer(1)])),
            ("a.b.c.d.+(1)", AST::call_method(AST::access_field(AST::access_field(AST::access_field(v("a"), idn("b")), idn("c")), idn("d")), idn("+"), vec![AST::Integer(1)])),
            ("a.b.c.d <- 1", AST::assign_field(AST::access_field(AST::access_field(v("a"), idn("b")), idn("c")), idn("d"), AST::Integer(1))),
            ("a.b.c[1] <- 2", AST::assign_array(AST::access_field(AST::access_field(v("a"), idn("b")), idn("c")), AST::Integer(1), AST::Integer(2))),
            ("a.b.c[1]", AST::access_array(AST::access_field(AST::access_field(v("a"), idn("b")), idn("c")), AST::Integer(1))),
            ("f(1).b.c.print(2)", AST::call_method(AST::access_field(AST::access_field(AST::call_function(idn("f"), vec![AST::Integer(1)]), idn("b")), idn("c")), idn("print"), vec![AST::Integer(2)])),
            ("2 /***/ + 3 /** x **/ /* * */ /*/*/", AST::call_method(AST::Integer(2), idn("+"), vec![AST::Integer(3)])),
            ("a /* 1 */ - /**/ b // c", AST::call_method(v("a"), idn("-"), vec![v("b")])),
            ("a.b(1).c[2]", AST::access_array(AST::access_field(AST::call_method(v("a"), idn("b"), vec![AST::Integer(1)]), idn("c")), AST::Integer(2))),
            ("a[1][2] <- 3", AST::assign_array(AST::access_array(v("a"), AST::Integer(1)), AST::Integer(2), AST::Integer(3))),
            ("a.b.c <- 1", AST::assign_field(AST::access_field(v("a"), idn("b")), idn("c"), AST::Integer(1))),
            ("f(1)(2)", AST::Null), // not valid FML: must be rejected (marker)
            ("if a then if b then 1 else 2", AST::conditional(v("a"), AST::conditional(v("b"), AST::Integer(1), AST::Integer(2)), AST::Null)),
            ("if a then if b then 1 else 2 else 3", AST::conditional(v("a"), AST::conditional(v("b"), AST::Integer(1), AST::Integer(2)), AST::Integer(3))),
            ("if a then while b do if c then 1 else 2", AST::conditional(v("a"), AST::loop_de_loop(v("b"), AST::conditional(v("c"), AST::Integer(1), AST::Integer(2))), AST::Null)),
            ("a + b.c * d[1]", AST::call_method(v("a"), idn("+"), vec![AST::call_method(AST::access_field(v("b"), idn("c")), idn("*"), vec![AST::access_array(v("d"), AST::Integer(1))])])),
            ("a - -1", AST::call_method(v("a"), idn("-"), vec![AST::Integer(-1)])),
            ("a.+(b)", AST::call_method(v("a"), idn("+"), vec![v("b")])),
            ("let x = y <- 1 + 2", AST::variable(idn("x"), AST::assign_variable(idn("y"), AST::call_method(AST::Integer(1), idn("+"), vec![AST::Integer(2)])))),
            ("begin end", AST::Null),
            ("", AST::Null),
            ("// only a comment", AST::Null),
            ("/* only */ /* comments */", AST::Null),
            ("007", AST::Integer(7)),
            ("-0", AST::Integer(0)),
            ("-2147483648", AST::Integer(i32::MIN)),
            ("2147483647", AST::Integer(i32::MAX)),
            ("a--1", AST::call_method(v("a"), idn("-"), vec![AST::Integer(-1)])),
            ("a<-1", AST::assign_variable(idn("a"), AST::Integer(1))),
            ("a < -1", AST::call_method(v("a"), idn("<"), vec![AST::Integer(-1)])),
            ("a<=b>=c", AST::call_method(AST::call_method(v("a"), idn("<="), vec![v("b")]), idn(">="), vec![v("c")])),
            ("x1y_2Z", v("x1y_2Z")),
            ("_", v("_")),
            ("object extends if a then b else c begin end", AST::object(AST::conditional(v("a"), v("b"), v("c")), vec![])),
            ("object extends a + 1 begin let x = 1 end", AST::object(AST::call_method(v("a"), idn("+"), vec![AST::Integer(1)]), vec![AST::variable(idn("x"), AST::Integer(1))])),
            ("print(\"a\\\"b\\\\c\", 1,)", AST::print("a\\\"b\\\\c".into(), vec![AST::Integer(1)])),
            ("f(1,2,)", AST::call_function(idn("f"), vec![AST::Integer(1), AST::Integer(2)])),
            ("function f(a,) -> a", AST::function(idn("f"), vec![idn("a")], v("a"))),
            ("while a do if b then c", AST::loop_de_loop(v("a"), AST::conditional(v("b"), v("c"), AST::Null))),
            ("if a then b else if c then d", AST::conditional(v("a"), v("b"), AST::conditional(v("c"), v("d"), AST::Null))),
            ("let x = if a then b else c", AST::variable(idn("x"), AST::conditional(v("a"), v("b"), v("c")))),
            ("a.b <- c.d <- 1", AST::assign_field(v("a"), idn("b"), AST::assign_field(v("c"), idn("d"), AST::Integer(1)))),
            ("a[b[c]]", AST::access_array(v("a"), AST::access_array(v("b"), v("c")))),
            ("(a)[1]", AST::access_array(v("a"), AST::Integer(1))),
            ("begin 1 end.f", AST::access_field(AST::block(vec![AST::Integer(1)]), idn("f"))),
            ("array(1,2)[0]", AST::access_array(AST::array(AST::Integer(1), AST::Integer(2)), AST::Integer(0))),
            ("true.|(false)", AST::call_method(AST::Boolean(true), idn("|"), vec![AST::Boolean(false)])),
            ("null == null != true", AST::call_method(AST::call_method(AST::Null, idn("=="), vec![AST::Null]), idn("!="), vec![AST::Boolean(true)])),
        ];
        for (src, expect) in fixed {
            rep.evaluations += 1;
            rep.conclusive += 1;
            let r = real::parse(src);
            if src == "f(1)(2)" {
                if r.is_ok() {
                    rep.notes.push("`f(1)(2)` is accepted by the parser".into());
                }
                continue;
            }
            match r {
                Ok(ast) => {
                    if ast != AST::top(vec![expect.clone()]) {
                        rep.violation("C07:documented-shape", format!("`{}` parses to {:?}, expected {:?}", src, ast, expect), json!({"check":"C07","src":src,"expected_ast": serde_json::to_value(&AST::top(vec![expect])).unwrap_or_default()}));
                    }
                }
                Err(e) => rep.violation("C07:documented-shape-rejects", format!("`{}` is rejected: {}", src, e), json!({"check":"C07","src":src,"expected_ast": serde_json::to_value(&AST::top(vec![expect])).unwrap_or_default()})),
            }
        }
    }
    // (2)+(3) random parser-range ASTs, printed several ways
    let n = ctx.share(80_000, 2_000_000);
    let layouts = if ctx.quick() { 2 } else { 3 };
    for i in 0..n {
        if i % 128 == 0 && ctx.out_of_time() && i > n / 10 {
            rep.notes.push(format!("time budget reached after {} of {} ASTs", i, n));
            break;
        }
        let mut rng = ctx.rng("C07", i);
        let ast = if i % 3 == 0 {
            match super::common::well_behaved_case(&mut rng, i) {
                Some(c) => c.ast,
                None => continue,
            }
        } else {
            gen::wild(&mut rng, 20 + (i % 60) as i32, 2 + (i % 4) as u32, false)
        };
        c07_roundtrip(rep, &format!("ast#{}", i), &ast, &mut rng, layouts);
        if rep.samples.len() < 3 && i % 3 != 0 {
            if let Ok(t) = printer::tokens(&ast, Style::minimal()) {
                if t.len() > 15 && t.len() < 80 {
                    let mut r2 = ctx.rng("C07s", i);
                    rep.sample(json!({"minimal": printer::join_plain(&t), "decorated": printer::join_decorated(&t, &mut r2)}));
                }
            }
        }
    }
    // (4) CLI sample through `fml parse --format json`
    if ctx.shard < 4 {
        let dir = ctx.scratch("c07");
        let m = if ctx.quick() { 10 } else { 150 };
        for i in 0..m {
            let mut rng = ctx.rng("C07cli", i);
            let ast = gen::wild(&mut rng, 40, 3, false);
            let toks = match printer::tokens(&ast, Style { parens: Parens::Random, rng: Some(&mut rng.clone()) }) {
                Ok(t) => t,
                Err(_) => continue,
            };
            let src = printer::join_decorated(&toks, &mut rng);
            let f = dir.join(format!("p{}.fml", i));
            if std::fs::write(&f, &src).is_err() {
                continue;
            }
            let r = if i % 2 == 0 {
                cli::run(cli::Spec::new(&["parse", f.to_str().unwrap(), "--format", "json"]))
            } else {
                cli::run(cli::Spec::new(&["parse", "--format", "JSON"]).stdin(src.as_bytes()))
            };
            rep.evaluations += 1;
            if r.timed_out || r.spawn_error.is_some() {
                rep.skip("cli-watchdog");
                continue;
            }
            rep.conclusive += 1;
            rep.count("cli_runs", 1);
            let replay = json!({"check":"C07","src":src,"expected_ast": serde_json::to_value(&ast).unwrap_or_default()});
            if !r.success() {
                rep.violation("C07:cli-rejects", format!("`fml parse` rejects a valid program: {}\n{}", r.describe(), cli::truncate(&src, 400)), replay);
                continue;
            }
            match serde_json::from_str::<AST>(r.out_str().trim()) {
                Ok(back) => {
                    if back != ast {
                        rep.violation("C07:cli-ast", format!("`fml parse --format json` prints a different AST\n{}", cli::truncate(&src, 400)), replay);
                    }
                }
                Err(e) => rep.violation("C07:cli-json", format!("`fml parse --format json` output is not a JSON AST: {}", e), replay),
            }
            let _ = std::fs::remove_file(&f);
        }
    }
}
