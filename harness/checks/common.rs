//! Helpers shared by the checks: case generation, in-repo corpus, stress shapes.

use crate::parser::AST;
use serde_json::json;
use std::path::{Path, PathBuf};

use super::super::gen::{self, GenOpts};
use super::super::printer;
use super::super::refsem::{self, Limits, Outcome, Res};
use super::super::rng::Rng;
use super::super::{real, Ctx, Report};

pub const REPO: &str = "/repo";

fn walk(dir: &Path, ext: &str, out: &mut Vec<PathBuf>) {
    if let Ok(rd) = std::fs::read_dir(dir) {
        let mut entries: Vec<PathBuf> = rd.filter_map(|e| e.ok().map(|e| e.path())).collect();
        entries.sort();
        for p in entries {
            if p.is_dir() {
                if p.file_name().map(|n| n == "target" || n == ".git").unwrap_or(false) {
                    continue;
                }
                walk(&p, ext, out);
            } else if p.extension().map(|e| e == ext).unwrap_or(false) {
                out.push(p);
            }
        }
    }
}

/// every file with extension `ext` under /repo/tests and /repo/examples
pub fn corpus(ext: &str) -> Vec<PathBuf> {
    let mut v = Vec::new();
    walk(&Path::new(REPO).join("tests"), ext, &mut v);
    walk(&Path::new(REPO).join("examples"), ext, &mut v);
    v
}

pub struct Case {
    pub ast: AST,
    pub src: String,
    pub origin: String,
}

/// One generated well-behaved program, printed to source. Generation options vary with
/// the index so that every run mixes small and large, with and without objects etc.
pub fn well_behaved_case(rng: &mut Rng, index: u64) -> Option<Case> {
    let mut o = GenOpts::default();
    if index % 64 == 7 {
        // now and then a long program: hundreds of statements, hundreds of constants and labels
        o.budget = 900;
        o.max_depth = 4;
        o.max_funcs = 6;
    }
    match index % 8 {
        0 => {
            o.budget = 30;
            o.max_depth = 3;
        }
        1 => {
            o.budget = o.budget.max(160);
            o.max_depth = 5;
        }
        2 => o.wild_ints = true,
        3 => {
            o.objects = false;
            o.budget = 60;
        }
        4 => {
            o.max_funcs = 5;
            o.budget = 120;
        }
        5 => {
            o.arrays = false;
        }
        _ => {}
    }
    let ast = gen::well_behaved(rng, o);
    let style_rng = &mut rng.clone();
    let toks = printer::tokens(&ast, printer::Style { parens: printer::Parens::Minimal, rng: Some(style_rng) }).ok()?;
    let src = printer::join_plain(&toks);
    Some(Case { ast, src, origin: format!("well-behaved#{}", index) })
}

/// Deterministic stress shapes: size extremes that widths / boundaries depend on.
pub fn stress_sources() -> Vec<(String, String)> {
    let mut v: Vec<(String, String)> = Vec::new();
    // > 256 distinct integer constants and > 256 globals
    let mut s = String::new();
    for i in 0..300 {
        s.push_str(&format!("let g{} = {};\n", i, 1000 + i));
    }
    s.push_str("print(\"~ ~ ~ ~\\n\", g0, g255, g256, g299);\n");
    v.push(("many-globals".into(), s));
    // > 256 locals in a function and in a block
    let mut s = String::from("function big(p) -> begin\n");
    for i in 0..300 {
        s.push_str(&format!("let l{} = p + {};\n", i, i));
    }
    s.push_str("print(\"~ ~ ~ ~\\n\", l0, l255, l256, l299); l299 end;\nprint(\"~\\n\", big(5));\nbegin\n");
    for i in 0..270 {
        s.push_str(&format!("let b{} = {};\n", i, i * 3));
    }
    s.push_str("print(\"~ ~ ~\\n\", b0, b256, b269) end;\n");
    v.push(("many-locals".into(), s));
    // long format strings around 255/256/65535/65536 bytes, multi-byte
    for n in [254usize, 255, 256, 257, 65534, 65535, 65536, 70000].iter() {
        let mut f = String::new();
        while f.len() < *n {
            f.push(if f.len() % 7 == 0 { 'é' } else { 'k' });
        }
        v.push((format!("long-format-{}", n), format!("print(\"{}\\n\");\nprint(\"~\\n\", 1);\n", f)));
    }
    // 255 arguments to print and to a function; 254 to a method
    let args: Vec<String> = (0..255).map(|i| i.to_string()).collect();
    let fmt: String = std::iter::repeat("~,").take(255).collect();
    v.push(("print-255-args".into(), format!("print(\"{}\\n\", {});\n", fmt, args.join(", "))));
    let params: Vec<String> = (0..255).map(|i| format!("p{}", i)).collect();
    v.push((
        "call-255-args".into(),
        format!("function wide({}) -> p0 + p127 * 1000 + p254 * 1000000;\nprint(\"~\\n\", wide({}));\n", params.join(", "), args.join(", ")),
    ));
    let params254: Vec<String> = (0..254).map(|i| format!("p{}", i)).collect();
    let args254: Vec<String> = (0..254).map(|i| (i + 1).to_string()).collect();
    v.push((
        "method-254-args".into(),
        format!(
            "let o = object begin let base = 7; function wide({}) -> this.base + p0 + p253 * 1000; end;\nprint(\"~\\n\", o.wide({}));\n",
            params254.join(", "),
            args254.join(", ")
        ),
    ));
    // beyond the 255-argument limit: must be rejected the same way in every build, never truncated
    for n in [256usize, 257, 300, 511, 512].iter() {
        let a: Vec<String> = (0..*n).map(|i| i.to_string()).collect();
        let f: String = std::iter::repeat("~").take(*n).collect();
        v.push((format!("print-{}-args", n), format!("print(\"start\\n\");\nprint(\"{}\\n\", {});\n", f, a.join(", "))));
        let ps: Vec<String> = (0..*n).map(|i| format!("p{}", i)).collect();
        v.push((format!("call-{}-args", n), format!("function wide({}) -> p0 + p{};\nprint(\"start\\n\");\nprint(\"~\\n\", wide({}));\n", ps.join(", "), n - 1, a.join(", "))));
    }
    // method calls count the receiver too: 254 explicit arguments is the most; 255, 256, 257, 300, 511, 512 must be rejected
    // (also against a method that takes none, and in operator position the count cannot arise)
    for n in [255usize, 256, 257, 300, 511, 512].iter() {
        let a: Vec<String> = (0..*n).map(|i| i.to_string()).collect();
        let ps: Vec<String> = (0..*n).map(|i| format!("p{}", i)).collect();
        v.push((
            format!("method-{}-args", n),
            format!("let o = object begin function wide({}) -> p0 + p{}; end;\nprint(\"start\\n\");\nprint(\"~\\n\", o.wide({}));\n", ps.join(", "), n - 1, a.join(", ")),
        ));
        v.push((format!("method-{}-args-to-a-short-method", n), format!("let o = object begin function few(x) -> x; end;\nprint(\"start\\n\");\nprint(\"~\\n\", o.few({}));\n", a.join(", "))));
    }
    // format strings that spell the names the compiler makes up for labels and hidden temporaries, before and after the
    // constructs that generate them
    let mut t = String::new();
    for k in 0..4 {
        t.push_str(&format!("print(\"if:end:{k}\");\nprint(\"if:consequent:{k}\");\nprint(\"loop:body:{k}\");\nprint(\"loop:condition:{k}\");\nprint(\"::size_{k}\");\nprint(\"::array_{k}\");\nprint(\"::i_{k}\");\nprint(\"array:body:{k} array:condition:{k}\\n\");\n", k = k));
        t.push_str(&format!("if {} == 1 then print(\"then{}\\n\") else print(\"else{}\\n\");\nlet w{} = 0; while w{} < 2 do w{} <- w{} + 1;\nprint(\"~\\n\", array(2, begin w{} end));\n", k % 2, k, k, k, k, k, k, k));
    }
    t.push_str("print(\"λ:\\n\");\nprint(\"main\\n\");\nprint(\"+\\n\");\nprint(\"get set\\n\");\nfunction named_like_text() -> print(\"named_like_text\\n\");\nnamed_like_text();\nlet o = object begin let fieldname = 1; function methodname() -> print(\"fieldname methodname\\n\"); end;\no.methodname();\n");
    v.push(("strings-like-internal-names".into(), t));
    // README: a `let` in an array size is visible afterwards, also with a per-element initializer
    v.push((
        "readme-array-size-let".into(),
        "let a = array(let size = 3, begin size * 2 end);\nprint(\"~ ~\\n\", size, a);\nlet b = array(let n2 = 2, null);\nprint(\"~ ~\\n\", n2, b);\nfunction f() -> begin let c = array(let m = 2, begin m end); m + c[1] end;\nprint(\"~\\n\", f());\nlet i = 1;\nlet c = array(4, begin let x = i; i <- i + 1; x end);\nprint(\"~ ~\\n\", c, i);\n".into(),
    ));
    // nested arrays: the inner array is created once per row, rows are distinct objects
    v.push((
        "nested-array-rows".into(),
        "let m = array(3, array(3, 0));\nm[0][1] <- 7;\nm[2][2] <- 9;\nprint(\"~\\n\", m);\nlet k = 2;\nlet n = array(k, array(k, k));\nn[1][0] <- 5;\nprint(\"~\\n\", n);\nlet row = array(2, 1);\nlet shared = array(2, row);\nshared[0][0] <- 4;\nprint(\"~ ~\\n\", shared, row);\nlet o = array(2, object begin let c = 0; end);\no[0].c <- 1;\nprint(\"~\\n\", o);\nfunction mk(n) -> array(n, array(n, null));\nlet g = mk(2);\ng[0][0] <- g;\nprint(\"~\\n\", g[1]);\n".into(),
    ));
    // object literals with methods nested inside method bodies and function bodies
    v.push((
        "nested-object-literals".into(),
        "let outer = object begin\n  let tag = 1;\n  function make(a) -> object begin let v = a; function inner(b) -> object begin let w = b; function deepest() -> this.w * 100; end; function get(i) -> this.v + i; end;\n  function after() -> this.tag + 1;\nend;\nlet made = outer.make(5);\nprint(\"~ ~ ~ ~\\n\", made[2], made.inner(3).deepest(), outer.after(), made);\nfunction build(n) -> object begin function one() -> object begin function two() -> n2(); end; end;\nfunction n2() -> 22;\nprint(\"~\\n\", build(1).one().two());\n".into(),
    ));
    // each call gets fresh locals; an inner call never disturbs the caller's
    v.push((
        "fresh-locals-per-call".into(),
        "function r(n) -> begin let loc = n * 10; let other = 0; if n > 0 then other <- r(n - 1); print(\"~:~:~ \", n, loc, other); loc end;\nprint(\"~\\n\", r(4));\nlet o = object begin function m(n) -> begin let a = array(1, n); if n > 0 then this.m(n - 1); a[0] end; end;\nprint(\"~\\n\", o.m(3));\nfunction two(a, b) -> begin let t = a; begin let t = b; t <- t + 1 end; t end;\nprint(\"~ ~\\n\", two(1, 2), two(3, 4));\n".into(),
    ));
    // ur-constructors: every call of the same literal makes a distinct instance
    v.push((
        "constructor-instances".into(),
        "function mk(v) -> object begin let val = v; let items = array(2, v); function get2() -> this.val * 2; function setv(x) -> this.val <- x; function +(o) -> mk(this.val + o.val); end;\nlet i1 = mk(1);\nlet i2 = mk(2);\ni1.setv(10);\ni1.items[0] <- 99;\nprint(\"~ ~ ~ ~ ~ ~\\n\", i1.val, i2.val, i1.get2(), i2.get2(), i1.items, i2.items);\nlet i3 = i1 + i2;\ni3.setv(0);\nprint(\"~ ~ ~\\n\", i1, i2, i3);\nfunction row(n) -> array(n, n);\nlet r1 = row(2);\nlet r2 = row(2);\nr1[0] <- 7;\nprint(\"~ ~\\n\", r1, r2);\nlet k = 0;\nlet made = array(3, mk(k <- k + 1));\nmade[0].setv(50);\nprint(\"~\\n\", made);\n".into(),
    ));
    // strings that look like other constants, names shared between kinds of constants
    v.push((
        "constant-lookalikes".into(),
        "let x = 1; let y = true; let z = null; let one = 1;\nprint(\"1\"); print(\"true\"); print(\"null\"); print(\"x\"); print(\"one\"); print(\"~\"  , x); print(\"\\n\");\nlet o = object begin let x = 2; let one = 3; function x() -> 4; function one(one) -> one; end;\nfunction x() -> 5;\nprint(\"~ ~ ~ ~ ~ ~ ~ ~\\n\", x, one, o.x, o.one, o.x(), o.one(6), x(), y);\nprint(\"~ ~ ~\\n\", 1 == true, null == false, 0 == null);\nprint(\"if:consequent:0 loop:body:1 λ: ::size_0 ~\\n\", if x == 1 then 7 else 0);\n".into(),
    ));
    // methods returning `this`, chained; an object stored in its own field (not printed); a loop
    // inside an array initializer inside a method; inherited `get` / `set` through index sugar
    v.push((
        "this-chains-and-self-fields".into(),
        "let b = object begin let n = 0; let me = null; function inc() -> begin this.n <- this.n + 1; this end; function get(i) -> this.n * 10 + i; function set(i, v) -> begin this.n <- v; this end; function fill(k) -> array(k, begin let j = 0; let s = 0; while j < this.n do begin s <- s + j; j <- j + 1 end; s end); end;\nb.me <- b;\nprint(\"~ ~ ~\\n\", b.inc().inc().inc().n, b.me.me.me.n, null == b.me);\nlet child = object extends b begin let own = 1; end;\nprint(\"~ ~ ~\\n\", child[2], (child[0] <- 5).n, b.n);\nprint(\"~ ~\\n\", b.fill(3), child.inc().n);\n".into(),
    ));
    // the README's object examples, verbatim apart from the added prints
    v.push((
        "readme-objects".into(),
        "let point = object\nbegin\n  let x = 0;\n  let y = 1;\n  let z = 2;\n  function print() ->\n  begin\n    print(\"x=~, y=~, z=~\\n\", this.x, this.y, this.z);\n  end\nend;\npoint.print();\nprint(\"x=~, y=~, z=~\\n\", point.x, point.y, point.z);\nfunction new(x) ->\n  object\n  begin\n    let inner = x;\n    function + (operand) -> this.inner + operand.inner\n  end;\nlet x = new(1);\nlet y = new(2);\nlet r = x + y;\nprint(\"~\\n\", r);\nlet r2 = x.+(y);\nprint(\"~\\n\", r2);\nlet pseudo_one = object extends 1 begin end;\nlet pseudo_two = object extends 2 begin end;\nprint(\"~\\n\", pseudo_one + 2);\nprint(\"~\\n\", pseudo_two + 1);\nfunction immutable_array(len, value) ->\n    object extends array(len, value)\n    begin\n      function set(index, value) ->\n        print(\"Cannot set value: immutable array\\n\");\n    end;\nlet arr = immutable_array(10, 42);\narr[0] <- 6;\nprint(\"~\\n\", arr);\nfunction math_array(len, value) ->\n    object extends array(len, value)\n    begin\n      let length = len;\n      function + (value) ->\n      begin\n        let i = 0;\n        let result = array(this.length, null);\n        while i < this.length do\n        begin\n          result[i] <- this[i] + value;\n          i <- i + 1;\n        end;\n        result\n      end\n    end;\nlet arr1 = math_array(10, 5);\nlet arr2 = arr1 + 1;\narr2[0] <- 7;\nprint(\"~\\n\", arr2);\nlet a = array(3, null);\nlet b = a;\nb[1] <- 42;\nprint(\"~ ~\\n\", a, b);\nprint(\"~\\n\", pseudo_one + pseudo_two);\n".into(),
    ));
    // values that contain themselves, printed in the middle of a format after other output
    v.push((
        "cyclic-print-mid-format".into(),
        "let a = array(2, 0);\na[1] <- a;\nprint(\"before\\n\");\nprint(\"x ~ y ~ z\\n\", 1, a);\nprint(\"after\\n\");\n".into(),
    ));
    v.push((
        "cyclic-print-object-parent".into(),
        "let box = array(1, null);\nlet o = object extends box begin let v = 1; let self = null; end;\no.self <- o;\nprint(\"start;\");\nprint(\"[~|~|~]\", o.v, 2, o);\nprint(\"unreached?\");\n".into(),
    ));
    // a global function and a member method with identical text; the same name as function, method,
    // field, variable and parameter
    v.push((
        "same-text-function-and-method".into(),
        "function area(w, h) -> w * h;\nlet o = object begin function area(w, h) -> w * h; function twice(x) -> x + x; end;\nfunction twice(x) -> x + x;\nprint(\"~ ~ ~ ~\\n\", area(2, 3), o.area(4, 5), o.twice(6), twice(7));\nlet p = object begin function twice(x) -> x + x; function area(w, h) -> w * h; end;\nprint(\"~ ~\\n\", p.twice(1), p.area(1, 1));\nfunction same(same) -> same;\nlet same = object begin let same = 3; function same(same) -> same; end;\nprint(\"~ ~ ~\\n\", same(1), same.same, same.same(2));\n".into(),
    ));
    // initializers that are never run (size 0) may not fail or have effects; per-element evaluation of
    // operator expressions over variables
    v.push((
        "array-initializer-multiplicity".into(),
        "let z = 0;\nprint(\"~ ~ ~ ~\\n\", array(0, 1 / z), array(0, undefined_name + 1), array(0, begin print(\"never\"); 1 end), array(z, z / z));\nlet made = 0;\nlet v = object begin let n = 1; function +(o) -> begin made <- made + 1; object begin let sum = this.n + o; end end; end;\nlet three = array(3, v + made);\nthree[0].sum <- 100;\nprint(\"~ ~\\n\", three, made);\nlet k = 1;\nlet w = 2;\nprint(\"~ ~ ~\\n\", array(2, k + w), array(2, k * w - k), array(2, k == w));\n".into(),
    ));
    // the same object literal instantiated on parent chains of different shapes
    v.push((
        "one-literal-many-chains".into(),
        "function wrap(p) -> object extends p begin let w = 1; end;\nlet a = object begin function m() -> 1; function who() -> 10; end;\nlet b = object extends a begin function m() -> 2; end;\nlet deep = wrap(wrap(wrap(a)));\nprint(\"~ ~\\n\", deep.m(), deep.who());\nlet near = wrap(b);\nprint(\"~ ~\\n\", near.m(), near.who());\nlet nearer = wrap(object extends deep begin function m() -> 3; end);\nprint(\"~ ~ ~\\n\", nearer.m(), wrap(5) + 1, wrap(array(1, 7))[0]);\nprint(\"~ ~\\n\", deep.m(), near.m());\n".into(),
    ));
    // resolve a method at depth D through one literal, then through the same literal with an override
    // at depth D-1 (and the other way round), for D = 1..5
    {
        let mut s = String::from("function wrap(p) -> object extends p begin let w = 1; end;\nfunction over(p, v) -> object extends p begin let val = v; function m() -> this.val; end;\nlet a = object begin function m() -> 1; end;\n");
        for d in 1..=5 {
            let mut deep = String::from("a");
            for _ in 0..d {
                deep = format!("wrap({})", deep);
            }
            let mut near = format!("over(a, {})", 20 + d);
            for _ in 1..d {
                near = format!("wrap({})", near);
            }
            s.push_str(&format!("let x{} = {};\nlet y{} = {};\nprint(\"~ ~ ~ ~;\", x{}.m(), y{}.m(), x{}.m(), wrap(y{}).m());\n", d, deep, d, near, d, d, d, d));
        }
        s.push_str("print(\"\\n\");\n");
        v.push(("method-resolution-depths".into(), s));
    }
    // several zero-length arrays and empty objects
    v.push(("empty-allocations".into(), "let k = 0; while k < 3 do begin array(0, k); array(0, begin k end); object begin end; k <- k + 1 end;\nprint(\"~ ~ ~\\n\", array(0, 1), array(0, begin 2 end), object begin end);\n".into()));
    // user-defined methods that carry the Feeny names of built-ins
    v.push((
        "methods-named-like-builtins".into(),
        "let o = object begin let t = 40; function add(x) -> this.t + x; function eq(x) -> this.t == x; function and(x) -> x; function get(i) -> i; function mod(x) -> 1; function neq(x) -> 2; function or(x) -> 3; function lt(x) -> 4; end;\nprint(\"~ ~ ~ ~ ~ ~ ~ ~\\n\", o.add(2), o.eq(40), o.and(7), o.get(9), o.mod(1), o.neq(1), o.or(1), o.lt(1));\nlet p = object extends 5 begin function add(x) -> 100; end;\nprint(\"~ ~\\n\", p.add(1), p + 1);\n".into(),
    ));
    // shared but acyclic values printed several times in one print
    v.push(("shared-values".into(), "let leaf = object begin let v = 1; end;\nlet pair = array(3, leaf);\nlet top = object begin let a = pair; let b = pair; let c = leaf; end;\nprint(\"~ ~ ~\\n\", top, pair, array(2, top));\n".into()));
    // exact width boundaries: N globals / locals / fields / elements for N around 256
    for n in [254usize, 255, 256, 257].iter() {
        let mut s = String::new();
        for i in 0..*n {
            s.push_str(&format!("let w{} = {};\n", i, i));
        }
        s.push_str(&format!("print(\"~ ~ ~\\n\", w0, w{}, w{});\n", n - 2, n - 1));
        s.push_str("function loc() -> begin\n");
        for i in 0..*n {
            s.push_str(&format!("let q{} = {};\n", i, i * 2));
        }
        s.push_str(&format!("q0 + q{} + q{} end;\nprint(\"~\\n\", loc());\n", n - 2, n - 1));
        s.push_str("let wideobj = object begin\n");
        for i in 0..*n {
            s.push_str(&format!("let fld{} = {};\n", i, i + 1));
        }
        s.push_str(&format!("end;\nprint(\"~ ~ ~\\n\", wideobj.fld0, wideobj.fld{}, wideobj.fld{});\n", n - 2, n - 1));
        s.push_str(&format!("let arr = array({}, 0); arr[{}] <- 1; print(\"~ ~\\n\", arr[{}], arr[{}]);\n", n, n - 1, n - 1, n - 2));
        v.push((format!("width-boundary-{}", n), s));
    }
    // many labels: 300 conditionals and loops in sequence and nested
    let mut s = String::from("let acc = 0;\n");
    for i in 0..300 {
        s.push_str(&format!("if acc >= {} then acc <- acc + 1 else acc <- acc - 1000;\n", i));
    }
    s.push_str("print(\"~\\n\", acc);\nlet k = 0;\n");
    for _ in 0..20 {
        s.push_str("while k < 3 do k <- k + 1; k <- 0;\n");
    }
    s.push_str("print(\"~\\n\", k);\n");
    v.push(("many-labels".into(), s));
    // many functions, methods and classes
    let mut s = String::new();
    for i in 0..270 {
        s.push_str(&format!("function fn{}(a) -> a + {};\n", i, i));
    }
    s.push_str("print(\"~ ~ ~\\n\", fn0(1), fn255(1), fn269(1));\n");
    for i in 0..40 {
        s.push_str(&format!(
            "let ob{} = object begin let v = {}; function get(i) -> this.v + i; function m{}() -> this.v * 2; end;\n",
            i, i, i
        ));
    }
    s.push_str("print(\"~ ~ ~\\n\", ob0[1], ob39[1], ob17.m17());\n");
    v.push(("many-methods".into(), s));
    // objects with many fields, printed (field order) and nested values
    let mut s = String::from("let o = object begin\n");
    for (i, n) in ["zeta", "alpha", "Alpha", "_x", "a", "ab", "aB", "b1", "b10", "b2", "z", "A"].iter().enumerate() {
        s.push_str(&format!("let {} = {};\n", n, i));
    }
    s.push_str("end;\nprint(\"~\\n\", o);\nlet n = object extends o begin let inner = array(2, o); end;\nprint(\"~\\n\", n);\n");
    v.push(("many-fields".into(), s));
    // deep recursion and long loop
    v.push((
        "deep-recursion".into(),
        "function down(n) -> if n <= 0 then 0 else 1 + down(n - 1);\nprint(\"~\\n\", down(3000));\nlet i = 0; let s = 0; while i < 5000 do begin s <- s + i; i <- i + 1 end; print(\"~\\n\", s);\n"
            .into(),
    ));
    // big array
    v.push(("big-array".into(), "let a = array(70000, 3); a[69999] <- 4; print(\"~ ~\\n\", a[0], a[69999]);\nlet b = array(300, begin 1 end); print(\"~\\n\", b[299]);\n".into()));
    // nesting depth
    let mut s = String::new();
    for _ in 0..60 {
        s.push_str("begin ");
    }
    s.push_str("print(\"deep\\n\")");
    for _ in 0..60 {
        s.push_str(" end");
    }
    s.push_str(";\n");
    let mut e = String::from("1");
    for i in 0..200 {
        e = format!("({} + {})", e, i);
    }
    s.push_str(&format!("print(\"~\\n\", {});\n", e));
    v.push(("deep-nesting".into(), s));
    // a field and a method of the same name; ill-formed literals that are never evaluated, or only
    // after earlier output
    v.push((
        "member-name-clashes".into(),
        "let o = object begin let v = 1; function v() -> this.v + 1; let get = 5; function get(i) -> i * 2; end;\nprint(\"~ ~ ~ ~\\n\", o.v, o.v(), o.get, o[4]);\nfunction never() -> object begin let d = 1; let d = 2; end;\nif false then object begin function m() -> 1; function m() -> 2; end else print(\"alive\\n\");\nlet c = object extends o begin let v = 10; function w() -> this.v; end;\nprint(\"~ ~ ~\\n\", c.v, c.v(), c.w());\nprint(\"before\\n\");\nobject begin let e = print(\"init1\\n\"); function e() -> 1; let e = print(\"init2\\n\"); end;\nprint(\"not reached\\n\");\n".into(),
    ));
    // one access site, receivers of different layouts
    v.push((
        "polymorphic-sites".into(),
        "function getx(o) -> o.x;\nfunction setx(o, v) -> o.x <- v;\nfunction callm(o, a) -> o.m(a);\nfunction plus(a, b) -> a + b;\nfunction at(c, i) -> c[i];\nfunction put(c, i, v) -> c[i] <- v;\nlet a = object begin let x = 1; let y = 2; function m(k) -> this.x + k; end;\nlet b = object begin let y = 20; let x = 10; function m(k) -> this.y + k; end;\nlet c = object extends a begin let z = 0; let x = 100; end;\nlet d = object begin let q = 7; let r = 8; let x = 1000; function m(k) -> k; function +(o) -> 5; function get(i) -> i * 2; function set(i, v) -> this.q <- v; end;\nlet arr = array(3, 4);\nprint(\"~ ~ ~ ~\\n\", getx(a), getx(b), getx(c), getx(d));\nprint(\"~ ~ ~ ~\\n\", getx(d), getx(c), getx(b), getx(a));\nsetx(a, 5); setx(b, 50); setx(c, 500); setx(d, 5000);\nprint(\"~ ~ ~ ~\\n\", a, b, c, d);\nprint(\"~ ~ ~ ~\\n\", callm(a, 1), callm(b, 1), callm(c, 1), callm(d, 1));\nprint(\"~ ~ ~\\n\", plus(1, 2), plus(d, 2), plus(3, 4));\nprint(\"~ ~ ~\\n\", at(arr, 1), at(d, 1), at(arr, 2));\nput(arr, 0, 9); put(d, 0, 9); put(arr, 1, 8);\nprint(\"~ ~\\n\", arr, d);\nlet i = 0;\nwhile i < 6 do begin\n  let o = if i % 2 == 0 then a else b;\n  print(\"~ ~ ~;\", getx(o), callm(o, i), setx(o, i));\n  i <- i + 1\nend;\nprint(\"\\n~ ~\\n\", a, b);\n".into(),
    ));
    // constructs in positions generators rarely use
    v.push(("definition-last-and-forward-call".into(), "print(\"~\\n\", late(2));\nprint(\"a\\n\");\nfunction late(k) -> k + 5\n".into()));
    v.push(("let-inside-argument-inside-field-initializer".into(), "function id(v) -> v;\nlet o = object begin let f = id(let inner = 4) + inner; let g = begin let tmp = inner * 2; tmp + 1 end; end;\nprint(\"~ ~ ~\\n\", o.f, o.g, inner);\n".into()));
    v.push(("block-and-conditional-receivers".into(), "let obj = object begin let v = 3; function m(a) -> this.v + a; end;\nprint(\"~\\n\", begin let t = obj; t end.m(1));\nprint(\"~\\n\", (if true then obj else null).m(2));\nprint(\"~\\n\", begin obj end.v);\nprint(\"~\\n\", array(2, obj)[1].m(3));\n".into()));
    v.push(("this-escapes".into(), "let reg = array(2, null);\nfunction show(x) -> x.v;\nlet o = object begin let v = 7; function me() -> this; function store() -> reg[0] <- this; function pass() -> show(this); function chain() -> this.me().me().v; end;\no.store();\nprint(\"~ ~ ~ ~\\n\", o.me().v, reg[0].v, o.pass(), o.chain());\nreg[0].v <- 8;\nprint(\"~ ~\\n\", o.v, o.me());\n".into()));
    v.push(("one-name-everywhere".into(), "let n = 1;\nfunction n(n) -> n + 1;\nlet o = object begin let n = 10; function n(n) -> this.n + n; end;\nbegin let n = 100; print(\"~ ~ ~ ~\\n\", n, n(n), o.n, o.n(n)) end;\nprint(\"~ ~\\n\", n, n(n));\nfunction show(show) -> show;\nlet show = 4;\nprint(\"~ ~\\n\", show, show(show));\n".into()));
    v.push(("shadowing-four-levels".into(), "let x = 1;\nbegin\n  let x = 2;\n  begin\n    let x = 3;\n    begin let x = 4; x <- x + 10; print(\"~\\n\", x) end;\n    x <- x + 20; print(\"~\\n\", x)\n  end;\n  x <- x + 30; print(\"~\\n\", x)\nend;\nprint(\"~\\n\", x);\n".into()));
    v.push(("parents-of-every-kind".into(), "let arr = array(2, object begin function who() -> 1; end);\nfunction mk() -> object begin function who() -> 2; end;\nlet c = true;\nlet a = object extends true begin end;\nlet b = object extends arr[0] begin end;\nlet d = object extends (if c then arr[1] else null) begin end;\nlet e = object extends begin let t = mk(); t end begin end;\nlet f = object extends mk() begin end;\nlet g = object extends 5 begin end;\nlet h = object extends null begin end;\nlet i = object extends array(2, 9) begin end;\nprint(\"~ ~ ~ ~ ~ ~ ~ ~\\n\", a & false, b.who(), d.who(), e.who(), f.who(), g + 1, g == 5, i[1]);\nprint(\"~ ~ ~ ~\\n\", a, g, h, i);\n".into()));
    v.push(("empty-lists".into(), "function z() -> null;\nobject begin end;\nbegin end;\nprint(\"\");\nz();\narray(0, null);\nobject extends object begin end begin end;\nlet e = object begin end;\nprint(\"~ ~ ~ ~\\n\", z(), begin end, array(0, 1), e);\n".into()));
    v.push(("trailing-separators".into(), "function f(a, b,) -> a * 10 + b;\nlet o = object begin let a = 1; function m(x,) -> x; end;\nlet p = object begin let a = 1 end;\nprint(\"~ ~ ~ ~\\n\", f(1, 2,), o.m(3,), begin 1; 2; end, p);\nbegin print(\"x\\n\"); end;\n".into()));
    v.push(("child-in-parents-field".into(), "let p = object begin let child = null; function hello() -> 1; end;\nlet c = object extends p begin let v = 1; end;\np.child <- c;\nprint(\"~ ~ ~\\n\", c.v, c.hello(), p.child.v);\n".into()));
    // expressions an optimiser would like to simplify (operators are overridable; x / x fails for 0); bodies re-entered through other objects, calls in tail position
    v.push(("algebraic-identities".into(), "let o = object begin\n  function +(b) -> begin print(\"<+~>\", b); 101 end;\n  function -(b) -> begin print(\"<-~>\", b); 102 end;\n  function *(b) -> begin print(\"<*~>\", b); 103 end;\n  function /(b) -> begin print(\"</~>\", b); 104 end;\n  function %(b) -> begin print(\"<%~>\", b); 105 end;\n  function ==(b) -> begin print(\"<==>\"); 106 end;\n  function !=(b) -> begin print(\"<!=>\"); 107 end;\n  function <(b) -> begin print(\"<lt>\"); 108 end;\n  function >(b) -> begin print(\"<gt>\"); 109 end;\n  function <=(b) -> begin print(\"<le>\"); 110 end;\n  function >=(b) -> begin print(\"<ge>\"); 111 end;\n  function &(b) -> begin print(\"<&~>\", b); 112 end;\n  function |(b) -> begin print(\"<|~>\", b); 113 end;\nend;\nprint(\"~ ~ ~ ~ ~ ~\\n\", o + 0, o - 0, o * 1, o * 0, o / 1, o % 1);\nprint(\"~ ~ ~ ~ ~ ~\\n\", o == o, o != o, o < o, o > o, o <= o, o >= o);\nprint(\"~ ~ ~ ~ ~ ~\\n\", o & true, o | false, o & false, o | true, o - 1 + 1, o * 2 / 2);\nlet x = 7; let z = 0; let t = true; let f = false; let n = null;\nprint(\"~ ~ ~ ~ ~ ~ ~ ~\\n\", x + 0, 0 + x, x - 0, 0 - x, x * 1, 1 * x, x * 0, 0 * x);\nprint(\"~ ~ ~ ~ ~ ~ ~ ~\\n\", x / 1, x % 1, x - x, x / x, x % x, z * x, z / x, z % x);\nprint(\"~ ~ ~ ~ ~ ~ ~ ~\\n\", x == x, x != x, x < x, x <= x, x > x, x >= x, z == 0, 0 == z);\nprint(\"~ ~ ~ ~ ~ ~ ~ ~\\n\", t & true, t | false, t & false, f | true, t & t, f | f, t == t, f != f);\nprint(\"~ ~ ~ ~ ~ ~\\n\", n == n, n != n, n == null, null == n, n == 0, n == false);\nprint(\"~ ~ ~ ~\\n\", x + 1 - 1, x * 2 / 2, 2147483647 + 1 - 1, (x + 2147483647) - 2147483647);\nx <- x;\nprint(\"~\\n\", x);\n".into()));
    v.push(("reentrant-methods-and-tail-calls".into(), "let a = object begin let id = 1; let other = null; function m(d) -> if d <= 0 then this.id else begin let before = this.id; let r = this.other.m(d - 1); before * 1000 + r * 10 + this.id end; end;\nlet b = object begin let id = 2; let other = null; function m(d) -> if d <= 0 then this.id else begin let before = this.id; let r = this.other.m(d - 1); before * 1000 + r * 10 + this.id end; end;\na.other <- b; b.other <- a;\nprint(\"~ ~ ~ ~\\n\", a.m(0), a.m(1), a.m(2), b.m(3));\nfunction even(n) -> if n == 0 then true else odd(n - 1);\nfunction odd(n) -> if n == 0 then false else even(n - 1);\nfunction count(n, acc) -> if n == 0 then acc else count(n - 1, acc + n);\nfunction last_local(n) -> begin let keep = n * 2; let r = if n == 0 then 0 else last_local(n - 1); keep + r end;\nprint(\"~ ~ ~ ~\\n\", even(10), odd(7), count(1000, 0), last_local(5));\nlet c = object begin let n = 0; function down(k) -> if k == 0 then this.n else begin this.n <- this.n + k; this.down(k - 1) end; end;\nprint(\"~ ~\\n\", c.down(100), c);\n".into()));
    // calls in tail position: arguments that swap or depend on the old parameters, a local that shadows a parameter before the
    // call, a method and a global function of one name calling each other, recursion through this and through another object,
    // arguments with effects, a wrong argument count in tail position
    v.push(("tail-call-shapes".into(), "function sum(a, b) -> if a <= 0 then b else sum(a - 1, b + a);\nfunction swap(a, b, n) -> if n <= 0 then a * 100 + b else swap(b, a, n - 1);\nfunction fib(a, b, n) -> if n <= 0 then a else fib(b, a + b, n - 1);\nfunction dep(a, b, n) -> if n <= 0 then a * 1000 + b else dep(a + b, a, n - 1);\nfunction shadow(left, step) -> if left <= 0 then step else begin let step = if step > left then left else step; shadow(left - step, step + 1) end;\nfunction keep(a, n) -> if n <= 0 then a else begin let old = a; let a = a + 1; keep(old + a, n - 1) end;\nfunction noisy(a, n) -> if n <= 0 then a else noisy(begin print(\"<a~>\", a); a + 1 end, begin print(\"<n~>\", n); n - 1 end);\nfunction twice(n) -> n + 1000;\nfunction thrice(n) -> o.thrice(n - 1);\nlet o = object begin\n  let visited = 0;\n  let other = null;\n  function twice(n) -> if n > 10 then n else twice(n * 2);\n  function thrice(n) -> if n <= 0 then 7 else thrice(n);\n  function walk(left, step) -> if left <= 0 then this.visited else begin this.visited <- this.visited + 1; let step = if step > left then left else step; this.walk(left - step, step + 1) end;\n  function hop(n) -> if n <= 0 then this.visited else this.other.hop(n - 1);\n  function count(n, acc) -> if n <= 0 then acc else this.count(n - 1, acc + n);\n  function flip(a, b, n) -> if n <= 0 then a * 100 + b else this.flip(b, a, n - 1);\nend;\nlet p = object begin let visited = 55; let other = o; function hop(n) -> if n <= 0 then this.visited else this.other.hop(n - 1); end;\no.other <- p;\nprint(\"~ ~ ~ ~\\n\", sum(10, 0), swap(1, 2, 3), fib(0, 1, 10), dep(1, 2, 4));\nprint(\"~ ~ ~\\n\", shadow(10, 1), keep(1, 3), noisy(0, 2));\nprint(\"~ ~ ~\\n\", o.twice(1), o.twice(20), thrice(3));\nprint(\"~ ~ ~ ~ ~\\n\", o.walk(10, 1), o.hop(3), o.hop(4), o.count(100, 0), o.flip(1, 2, 5));\nfunction bad(a, b) -> if a <= 0 then b else bad(a - 1);\nprint(\"before\\n\");\nprint(\"~\\n\", bad(2, 0));\nprint(\"not reached\\n\");\n".into()));
    // one method body shared by all instances of a constructor, recursing through other instances
    v.push(("linked-structures".into(), "function cons(head, tail) -> object begin\n  let head = head;\n  let tail = tail;\n  function nth(k) -> if k == 0 then this.head else this.tail.nth(k - 1);\n  function length() -> if this.tail == null then 1 else 1 + this.tail.length();\n  function sum(acc) -> if this.tail == null then acc + this.head else this.tail.sum(acc + this.head);\n  function last() -> if this.tail == null then this else this.tail.last();\n  function ==(other) -> false;\nend;\nlet list = cons(10, cons(20, cons(30, null)));\nprint(\"~ ~ ~ ~ ~ ~\\n\", list.nth(0), list.nth(1), list.nth(2), list.length(), list.sum(0), list.last().head);\nfunction node(key) -> object begin\n  let key = key; let left = null; let right = null;\n  function insert(k) -> if k < this.key then (if this.left == null then this.left <- node(k) else this.left.insert(k)) else (if this.right == null then this.right <- node(k) else this.right.insert(k));\n  function contains(k) -> if k == this.key then true else if k < this.key then (if this.left == null then false else this.left.contains(k)) else (if this.right == null then false else this.right.contains(k));\n  function total() -> this.key + (if this.left == null then 0 else this.left.total()) + (if this.right == null then 0 else this.right.total());\n  function depth() -> begin let l = if this.left == null then 0 else this.left.depth(); let r = if this.right == null then 0 else this.right.depth(); 1 + (if l > r then l else r) end;\n  function ==(other) -> false;\nend;\nlet tree = node(50);\nlet keys = array(7, 0);\nkeys[0] <- 30; keys[1] <- 70; keys[2] <- 20; keys[3] <- 40; keys[4] <- 60; keys[5] <- 80; keys[6] <- 45;\nlet i = 0;\nwhile i < 7 do begin tree.insert(keys[i]); i <- i + 1 end;\nprint(\"~ ~ ~ ~ ~\\n\", tree.contains(45), tree.contains(46), tree.total(), tree.depth(), tree.left.right.right.key);\n".into()));
    // a field name used before a global, a local, a parameter and a function of the same name are defined
    v.push(("fields-named-like-later-globals".into(), "function point(a, b) -> object begin let x = a; let y = b; end;\nlet x = 5;\nlet p = point(x, x + 1);\nx <- p.x + p.y;\nprint(\"~ ~\\n\", x, p);\nlet holder = object begin let later = 1; function later() -> 2; end;\nlet later = 3;\nfunction later() -> 4;\nbegin let y = 9; print(\"~ ~ ~ ~ ~ ~\\n\", y, p.y, later, later(), holder.later, holder.later()) end;\nfunction uses(y) -> y + p.y;\nprint(\"~\\n\", uses(100));\n".into()));
    // operand stack and frames growing past powers of two in the middle of argument lists
    let mut e = String::from("0");
    for i in 0..150 {
        e = format!("f3({}, {}, {})", i % 7, if i % 5 == 0 { "array(2, keep)[1].v" } else { "2" }, e);
    }
    let mut w = String::from("0");
    for i in 0..60 {
        let args: Vec<String> = (0..12).map(|a| if a == 6 { w.clone() } else { ((a + i) % 10).to_string() }).collect();
        w = format!("f12({})", args.join(", "));
    }
    let params: Vec<String> = (0..12).map(|a| format!("p{}", a)).collect();
    v.push((
        "deep-argument-nesting".into(),
        format!(
            "let keep = object begin let v = 3; end;\nfunction f3(a, b, c) -> a + b + c;\nfunction f12({}) -> p0 + p5 * 2 + p6 + p11 * 3;\nprint(\"~\\n\", {});\nprint(\"~\\n\", {});\nprint(\"~\\n\", keep);\n",
            params.join(", "),
            e,
            w
        ),
    ));
    // references and values: mutation through three containers, equal-looking arrays and objects that are distinct, an array that is
    // its own element's element, a parent changed after the child was made, integers equal to heap positions
    v.push(("aliasing-through-containers".into(), "let inner = array(2, 0);\nlet mid = object begin let slot = inner; end;\nlet outer = array(2, mid);\nlet alias = outer[1].slot;\nalias[1] <- 7;\nprint(\"~ ~ ~\\n\", inner, mid, outer);\nlet a = array(2, 0); let b = array(2, 0); a[0] <- 1; print(\"~ ~\\n\", a, b);\nlet rows = array(2, array(2, 0)); rows[0][0] <- 5; print(\"~\\n\", rows);\nlet same = array(2, inner); same[0][0] <- 9; print(\"~ ~\\n\", same, inner);\nlet self = array(2, null); let holder = array(1, self); self[0] <- holder; print(\"~\\n\", self[0][0][0][0][1]);\nlet base = object begin let f = 1; function get() -> this.f; end;\nlet child = object extends base begin end;\nbase.f <- 2; print(\"~ ~\\n\", child.get(), child);\nlet i1 = 1; let i2 = i1; i2 <- 5; print(\"~ ~\\n\", i1, i2);\nfunction mutate(arr, obj, n) -> begin arr[0] <- 100; obj.f <- 200; n <- 300; n end;\nlet n0 = 3; print(\"~ ~ ~ ~\\n\", mutate(inner, base, n0), inner, base, n0);\nlet e1 = object begin end; let e2 = object begin end; let es = array(2, object begin let k = 0; end); es[0].k <- 1; print(\"~ ~ ~\\n\", e1, e2, es);\nlet t = true; let t2 = t; let nn = null; print(\"~ ~ ~ ~ ~\\n\", t, t2, nn, 0, false);\nlet small = array(3, 0); small[0] <- 0; small[1] <- 1; small[2] <- 2;\nlet objs = array(3, object begin let id = 0; end);\nobjs[0].id <- 2; objs[1].id <- 1; objs[2].id <- 0;\nprint(\"~ ~ ~ ~\\n\", small, objs, small[objs[0].id], objs[small[2]].id);\n".into()));
    // legal programs a linter would frown at: get / set and operators with unusual parameter counts, unused and shadowing names,
    // constant conditions, dead faults, assignment in a condition, empty blocks - success with nothing on stderr
    v.push(("lint-bait".into(), "let m = object begin\n  let cells = array(6, 0);\n  function get(r, c) -> this.cells[r * 3 + c];\n  function set(r, c, v) -> this.cells[r * 3 + c] <- v;\n  function +() -> 7;\n  function ==(a, b) -> a + b;\n  function -(a, b, c) -> a + b + c;\nend;\nm.set(1, 2, 5);\nprint(\"~ ~ ~ ~ ~\\n\", m.get(1, 2), m.get(0, 0), m.+(), m.==(1, 2), m.-(1, 2, 3));\nlet g0 = object begin function get() -> 1; function set(a) -> 3; end;\nprint(\"~ ~\\n\", g0.get(), g0.set(9));\nlet unused = 5;\nfunction never_called(a, b) -> a;\nfunction ignores(a, b) -> 1;\nlet x = 1; x <- x;\nif 1 == 1 then print(\"same\\n\") else print(\"~\", 1 / 0);\nif false then 1 / 0;\nwhile false do nosuch();\nbegin end;\nbegin begin end end;\nif (x <- 2) == 2 then print(\"assigned in condition\\n\");\nlet a_name_that_is_really_quite_long_and_goes_on_for_a_while_longer_than_any_sensible_line_width_would_allow_in_a_style_guide = 1;\nlet shadow = 1; begin let shadow = 2; shadow end;\nfunction shadow(shadow) -> shadow;\nprint(\"~ ~ ~\\n\", ignores(1, 2), shadow, shadow(3));\n".into()));
    // how many values a program creates: compound initializers of every kind, 0 to 3 elements
    v.push(("allocation-multiplicity".into(), "let v = object begin function who() -> 1; end;\nlet n = 0;\nwhile n < 4 do begin\n  let a = array(n, object begin end);\n  let b = array(n, object begin function m() -> 1; end);\n  let c = array(n, object extends v begin function k() -> 2; end);\n  let d = array(n, object extends 5 begin end);\n  let e = array(n, array(0, 0));\n  let f = array(n, array(2, n));\n  let g = array(n, object begin let s = n; end);\n  let h = array(n, v);\n  let i = array(n, null);\n  print(\"~ ~ ~ ~ ~ ~ ~ ~ ~\\n\", a, b, c, d, e, f, g, h, i);\n  n <- n + 1\nend;\nlet two = array(2, object begin function m() -> 1; end);\nprint(\"~\\n\", two);\n".into()));
    // several hidden temporaries alive at once: compound array initializers nested three deep, inside methods, inside object
    // literals that are arguments, with `let` inside the sizes
    v.push(("nested-temporaries".into(), "function id(x) -> x;\nlet o = object begin\n  let base = 3;\n  function k(n) -> n * 2 + this.base;\n  function build(n) -> id(array(n, array(n, begin let t = array(n, this.k(n)); t[0] <- t[0] + 1; t end)));\n  function sizes() -> array(let a = 2, array(let b = a + 1, array(let c = b + 1, a * 100 + b * 10 + c)));\nend;\nprint(\"~\\n\", id(object begin function make() -> array(2, array(2, array(2, begin 7 end))); end).make());\nprint(\"~\\n\", o.build(2));\nprint(\"~\\n\", o.sizes());\nlet grid = array(2, array(3, array(2, object begin let v = 0; end)));\ngrid[1][2][0].v <- 5;\nprint(\"~\\n\", grid);\nprint(\"~\\n\", id(array(2, id(array(2, id(array(1, id(4))))))));\nfunction twice() -> array(2, array(2, twice2()));\nfunction twice2() -> array(1, array(1, 9));\nprint(\"~ ~\\n\", twice(), array(array(2, 1)[0] + 1, array(1, 1)[0]));\nfunction sz() -> array(array(2, begin 1 end)[0] + 1, begin 5 end);\nprint(\"~ ~\\n\", sz(), array(array(array(1, begin 2 end)[0], begin 3 end)[1], begin 4 end));\nlet m = object begin function sz(k) -> array(array(k, begin k end)[0], array(array(1, begin k end)[0], begin this end)[0] == null); function ==(o) -> false; end;\nprint(\"~\\n\", m.sz(2));\n".into()));
    // more than 256 hidden temporaries in one function (140 compound array initializers), more than 256 locals in a method
    // spread over nested blocks, more than 256 parameters-plus-locals in one frame
    let mut t = String::from("function many(k) -> begin\nlet acc = 0;\n");
    for i in 0..140 {
        t.push_str(&format!("acc <- acc + array(2, begin k + {} end)[1];\n", i));
    }
    t.push_str("acc end;\nprint(\"~\\n\", many(1));\nlet o = object begin function wide(p) -> begin\n");
    for i in 0..100 {
        t.push_str(&format!("let a{} = p + {}; begin let b{} = a{} * 2; begin let c{} = b{} + 1; p <- p + c{} - c{} end end;\n", i, i, i, i, i, i, i, i));
    }
    t.push_str("a0 + a99 + p end; end;\nprint(\"~\\n\", o.wide(3));\n");
    let ps: Vec<String> = (0..200).map(|i| format!("q{}", i)).collect();
    let az: Vec<String> = (0..200).map(|i| (i % 9).to_string()).collect();
    t.push_str(&format!("function framed({}) -> begin\n", ps.join(", ")));
    for i in 0..100 {
        t.push_str(&format!("let r{} = q{} + q{};\n", i, i, 199 - i));
    }
    t.push_str(&format!("r0 + r50 + r99 + q199 end;\nprint(\"~\\n\", framed({}));\n", az.join(", ")));
    v.push(("many-temporaries".into(), t));
    // degenerate programs
    v.push(("empty-program".into(), "".into()));
    v.push(("only-comments".into(), "// nothing\n/* at all */\n".into()));
    v.push(("only-function-definition".into(), "function f() -> print(\"never\\n\")\n".into()));
    v.push(("only-let".into(), "let x = 1".into()));
    v.push(("only-null".into(), "null;".into()));
    // one method of more than 2^16 instructions behind a far jump; more than 2^15 constants
    let mut m = String::from("let x = 0;\nfunction long(c) -> if c then begin\n");
    for _ in 0..30_000 {
        m.push_str("x <- x + 1;\n");
    }
    m.push_str("x end else 0 - 1;\nprint(\"~ ~ ~\\n\", long(false), long(true), long(true));\n");
    v.push(("long-method".into(), m));
    let mut m = String::from("let s = 0;\n");
    for i in 0..33_000 {
        m.push_str(&format!("s <- s + {};\n", 100_001 + i));
    }
    m.push_str("print(\"total ~\\n\", s);\n");
    v.push(("constants-33000".into(), m));
    // long histories: more than 2^16 iterations, allocations, calls and prints in one run; values
    // created before the history must still be intact after it
    v.push((
        "long-loop".into(),
        "let i = 0; let s = 0;\nwhile i < 70000 do begin s <- s + i % 7; i <- i + 1; if i % 10000 == 0 then print(\"~ ~\\n\", i, s) end;\nprint(\"~ ~\\n\", i, s);\n".into(),
    ));
    v.push((
        "long-allocations".into(),
        "let early = object begin let tag = 77; function get() -> this.tag; end;\nlet earr = array(3, 5);\nlet keep = array(8, null);\nlet i = 0;\nwhile i < 70000 do begin\n  let o = object begin let id = i; end;\n  if i % 10000 == 1 then keep[i / 10000] <- o;\n  i <- i + 1\nend;\nprint(\"~ ~ ~ ~\\n\", early, earr, keep, early.get());\nlet late = object extends early begin let more = i; end;\nprint(\"~ ~\\n\", late, late.get());\n".into(),
    ));
    v.push((
        "long-calls".into(),
        "function f(a, b) -> a + b;\nlet o = object begin let n = 0; function inc(d) -> begin this.n <- this.n + d; this.n end; end;\nlet i = 0; let acc = 0;\nwhile i < 70000 do begin acc <- f(acc, 1); o.inc(2); i <- i + 1 end;\nprint(\"~ ~ ~\\n\", acc, o.n, o);\n".into(),
    ));
    v.push(("long-prints".into(), "let i = 0;\nwhile i < 66000 do begin print(\"~\\n\", i); i <- i + 1 end;\nprint(\"done ~\\n\", i);\n".into()));
    v.push((
        "long-distinct-elements".into(),
        "let c = 0;\nlet a = array(70000, object begin let id = c <- c + 1; end);\nprint(\"~ ~ ~ ~ ~\\n\", a[0].id, a[65535].id, a[65536].id, a[69999].id, c);\na[65536].id <- 0 - 1;\nprint(\"~ ~ ~\\n\", a[65535], a[65536], a[65537]);\n".into(),
    ));
    v
}

/// More blocks in one frame than a 16-bit counter can number: 65 540 sibling blocks in a function body, in a method
/// body and at the top level; a `let` in the blocks after the 65 536th must still end with its block. (Kept apart
/// from the stress shapes: the source is about a megabyte and only the scoping checks need it.)
pub fn scope_capacity_sources() -> Vec<(String, String)> {
    let mut v = Vec::new();
    let blocks = "begin 1 end;\n".repeat(65_534);
    let tail = "begin let z = 5; z end;\nbegin let z = 6; z end;\nbegin let z = 7; begin let z = 8; z end end;\nbegin let y = 9; y end;\n";
    v.push((
        "blocks-65540-in-a-function".to_string(),
        format!("let z = 1;\nlet y = 2;\nfunction f() -> begin\n{}{}z * 10 + y end;\nprint(\"~\\n\", f());\n", blocks, tail),
    ));
    v.push((
        "blocks-65540-in-a-method".to_string(),
        format!("let z = 1;\nlet y = 2;\nlet o = object begin function m(p) -> begin\n{}{}z * 10 + y + p end; end;\nprint(\"~\\n\", o.m(100));\n", blocks, tail),
    ));
    v.push(("blocks-65540-at-top-level".to_string(), format!("let z = 1;\nlet y = 2;\nbegin\n{}{}print(\"~\\n\", z * 10 + y) end;\n", blocks, tail)));
    v
}

pub fn default_limits() -> Limits {
    Limits { fuel: 200_000, call_depth: 4_000, max_array: 1 << 20 }
}

pub fn big_limits() -> Limits {
    Limits { fuel: 5_000_000, call_depth: 20_000, max_array: 1 << 22 }
}

pub fn res_name(r: &Res) -> &'static str {
    match r {
        Res::Ok => "ok",
        Res::Fail(_) => "fail",
        Res::Static(_) => "static",
        Res::Fuel => "fuel",
        Res::OutOfFragment(_) => "out-of-fragment",
        Res::Ambiguous(_) => "ambiguous",
    }
}

/// step cap for the real VM given how much work the reference needed
pub fn cap_for(o: &Outcome) -> u64 {
    o.steps * 60 + 20_000
}

/// Non-trivial by the common rule: >= 3 construct kinds evaluated, >= 1 byte printed,
/// >= 10 reference steps.
pub fn nontrivial(o: &Outcome) -> bool {
    o.kinds.len() >= 3 && !o.out.is_empty() && o.steps >= 10
}

/// Development aid: exercise the harness's own pieces and print what happens.
pub fn selftest(ctx: &Ctx, rep: &mut Report) {
    let n = ctx.share(2000, 2000);
    let mut parse_mismatch = 0;
    let mut stats: std::collections::BTreeMap<String, u64> = Default::default();
    for i in 0..n {
        let mut rng = ctx.rng("selftest", i);
        let case = match well_behaved_case(&mut rng, i) {
            Some(c) => c,
            None => {
                *stats.entry("unprintable".into()).or_default() += 1;
                continue;
            }
        };
        rep.evaluations += 1;
        match real::parse(&case.src) {
            Ok(ast) => {
                if ast != case.ast {
                    parse_mismatch += 1;
                    if parse_mismatch < 3 {
                        eprintln!("PARSE MISMATCH\n{}\n--- generated: {:?}\n--- parsed: {:?}", case.src, case.ast, ast);
                    }
                }
            }
            Err(e) => {
                parse_mismatch += 1;
                if parse_mismatch < 3 {
                    eprintln!("PARSE ERROR {}\n{}", e, case.src);
                }
            }
        }
        let o = refsem::run(&case.ast, default_limits());
        *stats.entry(format!("refsem:{}", res_name(&o.res))).or_default() += 1;
        if let Res::OutOfFragment(m) | Res::Static(m) = &o.res {
            *stats.entry(format!("why:{}", m.split(' ').take(3).collect::<Vec<_>>().join(" "))).or_default() += 1;
        }
        if let Res::Fail(m) = &o.res {
            *stats.entry(format!("fail:{}", m.split(' ').take(3).collect::<Vec<_>>().join(" "))).or_default() += 1;
        }
        if nontrivial(&o) {
            *stats.entry("nontrivial".into()).or_default() += 1;
        }
        if o.judged() {
            let p = real::pipeline_from_ast(&case.ast, cap_for(&o), true);
            let (out, ok) = match (&p.stage_error, &p.run) {
                (Some((st, e)), _) => (format!("<{}: {}>", st, e), false),
                (None, Some(r)) => (r.out.clone(), r.ok),
                _ => unreachable!(),
            };
            let agree = out == o.out && ok == !o.failed();
            *stats.entry(format!("agree:{}", agree)).or_default() += 1;
            if !agree && stats.get("agree:false").copied().unwrap_or(0) < 4 {
                eprintln!("DISAGREE\n{}\n--- refsem: {:?} out={:?}\n--- real: ok={} out={:?} err={:?}", case.src, o.res, o.out, ok, out, p.run.as_ref().map(|r| r.err.clone()));
            }
            rep.conclusive += 1;
        }
        rep.sample(json!({"src": case.src}));
    }
    for (k, v) in stats {
        rep.count(&k, v);
        eprintln!("{:40} {}", k, v);
    }
    eprintln!("parse mismatches: {}", parse_mismatch);
}
