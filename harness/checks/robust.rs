//! C10 (clean failure, no native crash), C16 (heap log, inert memory flags),
//! C11 (determinism) — all monitored at the CLI boundary of the real binary.

use crate::parser::AST;
use serde_json::json;

use super::super::gen;
use super::super::printer;
use super::super::refsem::{self, Alloc, Outcome, Res};
use super::super::rng::{hash_bytes, hash_str, Rng};
use super::super::{cli, real, Ctx, Report};
use super::common::*;
use super::judge::*;

// ---------------------------------------------------------------------------------------------
// C10

/// What may be demanded of a run whose program is outside the judged fragment: no death by
/// signal, exit 0 => empty stderr, exit != 0 => diagnostic on stderr.
fn crash_freedom(rep: &mut Report, origin: &str, how: &str, r: &cli::CliRun, replay: &serde_json::Value) -> bool {
    if r.timed_out || r.spawn_error.is_some() {
        rep.skip("cli-watchdog");
        return false;
    }
    rep.conclusive += 1;
    rep.count("cli_runs", 1);
    if let Some(sig) = r.signal {
        rep.violation(
            &format!("C10:signal-{}", sig),
            format!("{}: `{}` died by signal {} (native crash): stderr={:?}", origin, how, sig, cli::truncate(&r.err_str(), 300)),
            replay.clone(),
        );
        return false;
    }
    if r.success() && !r.stderr.is_empty() {
        rep.violation("C10:success-with-stderr", format!("{}: `{}` exits 0 but writes to stderr: {}", origin, how, r.describe()), replay.clone());
        return false;
    }
    if !r.success() && r.stderr.is_empty() {
        rep.violation("C10:failure-without-diagnostic", format!("{}: `{}` exits {:?} without a diagnostic", origin, how, r.code), replay.clone());
        return false;
    }
    true
}

fn expect_cli(rep: &mut Report, origin: &str, how: &str, r: &cli::CliRun, out: &Outcome, replay: &serde_json::Value, class: &str) {
    if !crash_freedom(rep, origin, how, r, replay) {
        return;
    }
    if !out.judged() {
        return;
    }
    let expect_ok = !out.failed();
    let got = r.out_str();
    if r.success() != expect_ok {
        rep.violation(
            &format!("C10:exit-status:{}", class),
            format!("{}: `{}` {} but the rules say it {}; stdout={:?} stderr={:?}", origin, how, if r.success() { "exits 0" } else { "fails" }, if expect_ok { "succeeds" } else { "fails" }, cli::truncate(&got, 200), cli::truncate(&r.err_str(), 200)),
            replay.clone(),
        );
    } else if got != out.out {
        rep.violation(
            &format!("C10:output-at-failure:{}", class),
            format!("{}: `{}`: stdout must be exactly the output before the fault.\n  expected {:?}\n  observed {:?}", origin, how, cli::truncate(&out.out, 300), cli::truncate(&got, 300)),
            replay.clone(),
        );
    }
}

const MUTATIONS: [&str; 14] = [
    "delete-token", "duplicate-token", "swap-tokens", "insert-keyword", "insert-operator", "drop-closer", "extra-closer", "unterminated-string", "unterminated-comment",
    "bad-escape", "huge-literal", "invalid-utf8", "stray-character", "truncate",
];

fn mutate_tokens(toks: &[String], rng: &mut Rng, kind: &str) -> Vec<u8> {
    let mut t: Vec<String> = toks.to_vec();
    let n = t.len().max(1);
    let i = rng.below(n);
    match kind {
        "delete-token" => {
            if !t.is_empty() {
                t.remove(i);
            }
        }
        "duplicate-token" => {
            if !t.is_empty() {
                let x = t[i].clone();
                t.insert(i, x);
            }
        }
        "swap-tokens" => {
            if t.len() > 1 {
                let j = rng.below(t.len());
                t.swap(i, j);
            }
        }
        "insert-keyword" => t.insert(i, printer::KEYWORDS[rng.below(printer::KEYWORDS.len())].to_string()),
        "insert-operator" => t.insert(i, ["+", "<-", "->", "=", ".", ",", ";", "==", "["][rng.below(9)].to_string()),
        "drop-closer" => {
            if let Some(p) = t.iter().rposition(|x| x == ")" || x == "end" || x == "]") {
                t.remove(p);
            }
        }
        "extra-closer" => t.insert(i, [")", "end", "]"][rng.below(3)].to_string()),
        "unterminated-string" => t.insert(i, "print ( \"never closed".to_string()),
        "unterminated-comment" => t.insert(i, "/* never closed".to_string()),
        "bad-escape" => t.insert(i, "print ( \"bad \\q escape\" ) ;".to_string()),
        "huge-literal" => t.insert(i, ["2147483648", "-2147483649", "99999999999999999999", "00000000000000000000000000001"][rng.below(4)].to_string()),
        "stray-character" => t.insert(
            i,
            ["@", "$", "?", "\u{0}", "\u{feff}", "λ", "'", "`", "\\", "~", "#", "{", "}", "^", "!", "#!", "#! /usr/bin/fml run", "!!", "::", "&&", "||", "**", "<>", "..", "=>", "#include", "--x"][rng.below(27)]
                .to_string(),
        ),
        "truncate" => t.truncate(i),
        _ => {}
    }
    let mut bytes = t.join(" ").into_bytes();
    bytes.push(b'\n');
    if kind == "invalid-utf8" {
        let at = rng.below(bytes.len());
        let bad: &[u8] = [&[0xffu8][..], &[0xc3, 0x28], &[0xe2, 0x82], &[0xf0, 0x9f, 0x91], &[0x80], &[0xed, 0xa0, 0x80]][rng.below(6)];
        for (k, b) in bad.iter().enumerate() {
            bytes.insert(at + k, *b);
        }
    }
    bytes
}

/// hostile shapes: (name, source, must succeed?, expected stdout if known)
fn hostile_shapes(quick: bool) -> Vec<(String, String, Option<String>)> {
    let mut v: Vec<(String, String, Option<String>)> = Vec::new();
    // cycles of every size through array elements, fields and mixed, reaching print
    for size in [1usize, 2, 3, 5, 17, 100].iter() {
        let n = *size;
        // ring of arrays
        let mut s = String::new();
        for i in 0..n {
            s.push_str(&format!("let a{} = array(2, {});\n", i, i));
        }
        for i in 0..n {
            s.push_str(&format!("a{}[1] <- a{};\n", i, (i + 1) % n));
        }
        s.push_str("print(\"built\\n\");\nprint(\"pre ~ then ~\\n\", 1, a0);\nprint(\"after\\n\");\n");
        v.push((format!("array-ring-{}-print", n), s, None));
        // ring of objects through fields
        let mut s = String::new();
        for i in 0..n {
            s.push_str(&format!("let o{} = object begin let next = null; let id = {}; end;\n", i, i));
        }
        for i in 0..n {
            s.push_str(&format!("o{}.next <- o{};\n", i, (i + 1) % n));
        }
        s.push_str("print(\"built\\n\");\nprint(\"pre ~ then ~\\n\", 2, o0);\nprint(\"after\\n\");\n");
        v.push((format!("object-ring-{}-print", n), s, None));
        // mixed: object -> array -> object …, cycle not printed but dispatched through / used in errors
        let mut s = String::new();
        for i in 0..n {
            s.push_str(&format!("let o{} = object begin let slot = array(1, null); function who() -> {}; end;\n", i, i));
        }
        for i in 0..n {
            s.push_str(&format!("o{}.slot[0] <- o{};\n", i, (i + 1) % n));
        }
        s.push_str("print(\"~\\n\", o0.slot[0].who());\n");
        v.push((format!("mixed-ring-{}-dispatch", n), s.clone(), Some(format!("{}\n", 1 % n))));
        let mut s2 = s.clone();
        s2.push_str("o0.slot.nosuch(o0);\nprint(\"after\\n\");\n");
        v.push((format!("mixed-ring-{}-error-message", n), s2, None));
        let mut s3 = s.clone();
        s3.push_str("o0.zz <- 1;\n");
        v.push((format!("mixed-ring-{}-field-error", n), s3, None));
    }
    // a small cycle inside a heap with very many unrelated objects, and a long chain next to a cycle
    v.push((
        "ring-in-big-heap-print".into(),
        "let a = array(1, null);\na[0] <- a;\nlet i = 0;\nwhile i < 300000 do begin array(0, null); i <- i + 1 end;\nprint(\"built\\n\");\nprint(\"~\\n\", a);\nprint(\"after\\n\");\n".into(),
        None,
    ));
    v.push((
        "ring-behind-chain-print".into(),
        "let ring = array(1, null);\nring[0] <- ring;\nlet c = ring;\nlet i = 0;\nwhile i < 500 do begin c <- array(1, c); i <- i + 1 end;\nprint(\"built\\n\");\nprint(\"~\\n\", c);\n".into(),
        None,
    ));
    // a value that contains itself through its parent chain (parent is an array holding the object)
    v.push((
        "parent-cycle-print".into(),
        "let box = array(1, null);\nlet o = object extends box begin let v = 1; end;\nbox[0] <- o;\nprint(\"built\\n\");\nprint(\"~\\n\", o);\n".into(),
        None,
    ));
    v.push((
        "parent-cycle-dispatch".into(),
        "let box = array(1, null);\nlet o = object extends box begin let v = 1; end;\nbox[0] <- o;\nprint(\"~\\n\", o[0].v);\no.nosuch();\n".into(),
        None,
    ));
    // shared but acyclic (a DAG) must print
    v.push((
        "shared-acyclic".into(),
        "let leaf = array(2, 7);\nlet pair = array(2, leaf);\nlet top = object begin let a = pair; let b = pair; end;\nprint(\"~\\n\", top);\n".into(),
        Some("object(a=[[7, 7], [7, 7]], b=[[7, 7], [7, 7]])\n".into()),
    ));
    // acyclic chains of 10^3 links printed and dispatched through
    let links = 1000;
    let mut s = String::from("let c = null;\nlet i = 0;\nwhile i < ");
    s.push_str(&format!("{} do begin c <- object begin let next = c; end; i <- i + 1 end;\nprint(\"~\\n\", c);\n", links));
    let mut exp = String::new();
    for _ in 0..links {
        exp.push_str("object(next=");
    }
    exp.push_str("null");
    for _ in 0..links {
        exp.push(')');
    }
    exp.push('\n');
    v.push(("field-chain-1000-print".into(), s, Some(exp)));
    let mut s = String::from("let c = 5;\nlet i = 0;\nwhile i < ");
    s.push_str(&format!("{} do begin c <- object extends c begin end; i <- i + 1 end;\nprint(\"~\\n\", c + 1);\nc.nosuch(1);\n", links));
    v.push(("parent-chain-1000-dispatch".into(), s, None));
    let mut s = String::from("let c = 0;\nlet i = 0;\nwhile i < ");
    s.push_str(&format!("{} do begin c <- array(1, c); i <- i + 1 end;\nprint(\"~\\n\", c);\n", links));
    let mut exp = String::new();
    for _ in 0..links {
        exp.push('[');
    }
    exp.push('0');
    for _ in 0..links {
        exp.push(']');
    }
    exp.push('\n');
    v.push(("array-chain-1000-print".into(), s, Some(exp)));
    // FML recursion depth 10^5 (quick: 2*10^4)
    let depth = if quick { 20_000 } else { 100_000 };
    v.push((
        format!("recursion-{}", depth),
        format!("function down(n) -> if n <= 0 then 0 else 1 + down(n - 1);\nprint(\"~\\n\", down({}));\n", depth),
        Some(format!("{}\n", depth)),
    ));
    v.push((
        format!("method-recursion-{}", depth),
        format!("let o = object begin function down(n) -> if n <= 0 then 0 else 1 + this.down(n - 1); end;\nprint(\"~\\n\", o.down({}));\n", depth),
        Some(format!("{}\n", depth)),
    ));
    // source nesting depth 200 of every nesting construct
    let d = 200;
    let wrap = |open: &str, close: &str, core: &str| {
        let mut s = String::new();
        for _ in 0..d {
            s.push_str(open);
        }
        s.push_str(core);
        for _ in 0..d {
            s.push_str(close);
        }
        s
    };
    v.push(("nest-parens".into(), format!("print(\"~\\n\", {});\n", wrap("(", ")", "1")), Some("1\n".into())));
    v.push(("nest-blocks".into(), format!("print(\"~\\n\", {});\n", wrap("begin ", " end", "2")), Some("2\n".into())));
    v.push(("nest-if".into(), format!("print(\"~\\n\", {});\n", wrap("if true then ", " else 0", "3")), Some("3\n".into())));
    v.push(("nest-while".into(), format!("{};\nprint(\"done\\n\");\n", wrap("while false do ", "", "4")), Some("done\n".into())));
    v.push(("nest-array".into(), format!("print(\"~\\n\", {});\n", wrap("array(1, ", ")", "5")), None));
    v.push(("nest-index".into(), format!("let a = array(1, 0);\nprint(\"~\\n\", {});\n", wrap("a[", "]", "0")), Some("0\n".into())));
    v.push(("nest-object".into(), format!("print(\"~\\n\", {});\n", wrap("object extends ", " begin end", "6")), None));
    v.push(("nest-call".into(), format!("function f(x) -> x;\nprint(\"~\\n\", {});\n", wrap("f(", ")", "7")), Some("7\n".into())));
    v.push(("nest-let".into(), format!("print(\"~\\n\", {});\n", wrap("begin let v = ", " end", "8")), Some("8\n".into())));
    v.push(("nest-operators".into(), format!("print(\"~\\n\", 0{});\n", " + 1".repeat(d)), Some(format!("{}\n", d))));
    // legitimate programs that merely look like runaways: a long-running loop, one enormous output
    // line, very many short prints
    let iters: i64 = 3_000_000;
    let sum: i64 = (0..iters).map(|i| i % 7).sum();
    v.push((
        "long-run-3000000-iterations".into(),
        format!("let i = 0; let s = 0;\nwhile i < {} do begin s <- s + i % 7; i <- i + 1 end;\nprint(\"~ ~\\n\", i, s);\n", iters),
        Some(format!("{} {}\n", iters, sum as i32)),
    ));
    let wide = 200_000usize;
    let mut line = String::with_capacity(wide * 3 + 4);
    line.push('[');
    for i in 0..wide {
        if i > 0 {
            line.push_str(", ");
        }
        line.push('7');
    }
    line.push_str("]\n");
    v.push(("huge-line-200000-elements".into(), format!("print(\"~\\n\", array({}, 7));\n", wide), Some(line)));
    let mut many = String::new();
    for i in 0..150_000 {
        many.push_str(&i.to_string());
        many.push('\n');
    }
    v.push(("many-prints-150000".into(), "let i = 0;\nwhile i < 150000 do begin print(\"~\\n\", i); i <- i + 1 end;\n".into(), Some(many)));
    // nesting far beyond what anyone writes by hand: values 10^5 deep reaching print and dispatch, source
    // 2*10^4 (parentheses 10^5) deep. Whatever recursion the toolchain uses, it must not run off the native stack.
    let deep = 100_000usize;
    v.push((
        format!("deep-value-print-array-{}", deep),
        format!("let c = 0;\nlet i = 0;\nwhile i < {} do begin c <- array(1, c); i <- i + 1 end;\nprint(\"built\\n\");\nprint(\"~\\n\", c);\nprint(\"after\\n\");\n", deep),
        Some(format!("built\n{}0{}\nafter\n", "[".repeat(deep), "]".repeat(deep))),
    ));
    v.push((
        format!("deep-value-print-object-{}", deep),
        format!("let c = null;\nlet i = 0;\nwhile i < {} do begin c <- object begin let n = c; end; i <- i + 1 end;\nprint(\"built\\n\");\nprint(\"~\\n\", c);\nprint(\"after\\n\");\n", deep),
        Some(format!("built\n{}null{}\nafter\n", "object(n=".repeat(deep), ")".repeat(deep))),
    ));
    v.push((
        format!("deep-value-dispatch-{}", deep),
        format!("let c = 5;\nlet i = 0;\nwhile i < {} do begin c <- object extends c begin end; i <- i + 1 end;\nprint(\"built\\n\");\nprint(\"~\\n\", c + 1);\nprint(\"after\\n\");\n", deep),
        Some("built\n6\nafter\n".to_string()),
    ));
    // a failure at the bottom of deep recursion, and on the head of a deeply nested value (whatever the diagnostic
    // shows of the stack or of the value, composing it must not run off the native stack)
    for depth in [1_000usize, 100_000, 1_000_000].iter() {
        v.push((
            format!("fault-after-recursion-depth-{}", depth),
            format!("function down(n) -> if n <= 0 then nosuch(1) else 1 + down(n - 1);\nprint(\"start\");\nprint(\" ~\\n\", down({}));\nprint(\"not reached\\n\");\n", depth),
            Some("start".to_string()),
        ));
        v.push((
            format!("fault-after-method-recursion-depth-{}", depth),
            format!("let o = object begin function down(n) -> if n <= 0 then this.nosuch else 1 + this.down(n - 1); end;\nprint(\"start\");\nprint(\" ~\\n\", o.down({}));\n", depth),
            Some("start".to_string()),
        ));
    }
    for (what, fault) in [("unknown-method", "c.nosuch(1)"), ("unknown-field", "c.nosuch"), ("index", "c[7]"), ("operator", "c + 1"), ("field-assignment", "c.nosuch <- 1")].iter() {
        v.push((
            format!("fault-after-deep-list-{}-{}", what, deep),
            format!("let c = null;\nlet i = 0;\nwhile i < {} do begin c <- object begin let next = c; let id = i; end; i <- i + 1 end;\nprint(\"built\");\n{};\nprint(\"not reached\\n\");\n", deep, fault),
            Some("built".to_string()),
        ));
        v.push((
            format!("fault-after-deep-array-{}-{}", what, deep),
            format!("let c = 0;\nlet i = 0;\nwhile i < {} do begin c <- array(1, c); i <- i + 1 end;\nprint(\"built\");\n{};\nprint(\"not reached\\n\");\n", deep, fault),
            Some("built".to_string()),
        ));
    }
    let nest = 20_000usize;
    v.push((format!("deep-source-blocks-{}", nest), format!("print(\"~\\n\", {}2{});\n", "begin ".repeat(nest), " end".repeat(nest)), Some("2\n".into())));
    v.push((format!("deep-source-operators-{}", nest), format!("print(\"~\\n\", 0{});\n", " + 1".repeat(nest)), Some(format!("{}\n", nest))));
    v.push((format!("deep-source-calls-{}", nest), format!("function f(x) -> x;\nprint(\"~\\n\", {}7{});\n", "f(".repeat(nest), ")".repeat(nest)), Some("7\n".into())));
    v.push((format!("deep-source-parentheses-{}", deep), format!("print(\"~\\n\", {}1{});\n", "(".repeat(deep), ")".repeat(deep)), Some("1\n".into())));
    // a failure right after output that exactly fills, or just misses, the usual buffer sizes, with the
    // last line still open: stdout holds every byte printed before the failure
    for n in [0usize, 1, 1023, 1024, 1025, 4095, 4096, 4097, 8191, 8192, 8193, 65535, 65536, 65537].iter() {
        let body = "a".repeat(*n);
        v.push((format!("fault-after-{}-bytes-open-line", n), format!("print(\"{}\");\n1 / 0;\nprint(\"not reached\\n\");\n", body), Some(body.clone())));
        if *n >= 1023 {
            let mut with_nl = body.clone();
            with_nl.replace_range(511..512, "\n");
            v.push((
                format!("fault-after-{}-bytes-line-break-inside", n),
                format!("print(\"{}\");\nprint(\"\");\nnosuch();\n", with_nl.replace('\n', "\\n")),
                Some(with_nl),
            ));
        }
    }
    // beyond the capacity of the bytecode format (u16 constants and locals, u8 arities): the program
    // must either run correctly or be refused as a whole before anything runs - never wrap around
    let n = 70_000usize;
    let mut s = String::from("print(\"start\\n\");\nlet s = 0;\n");
    let mut total: i64 = 0;
    for i in 0..n {
        s.push_str(&format!("s <- s + {};\n", 100_001 + i));
        total += 100_001 + i as i64;
    }
    s.push_str("print(\"~\\n\", s);\n");
    v.push(("capacity-constants-70000".into(), s, Some(format!("start\n{}\n", total as i32))));
    let mut s = String::from("print(\"start\\n\");\nfunction big() -> begin\n");
    for i in 0..n {
        s.push_str(&format!("let l{} = {};\n", i, i % 1000));
    }
    s.push_str("l0 + l65535 + l65536 + l69999 end;\nprint(\"~\\n\", big());\n");
    v.push(("capacity-locals-70000".into(), s, Some(format!("start\n{}\n", 0 + 65535 % 1000 + 65536 % 1000 + 69999 % 1000))));
    let params: Vec<String> = (0..300).map(|i| format!("p{}", i)).collect();
    let args: Vec<String> = (0..300).map(|i| i.to_string()).collect();
    v.push((
        "capacity-arguments-300".into(),
        format!("print(\"start\\n\");\nfunction wide({}) -> p0 + p255 + p256 + p299;\nprint(\"~\\n\", wide({}));\n", params.join(", "), args.join(", ")),
        Some(format!("start\n{}\n", 0 + 255 + 256 + 299)),
    ));
    v.push((
        "capacity-method-arguments-300".into(),
        format!("print(\"start\\n\");\nlet o = object begin function wide({}) -> p0 + p255 + p256 + p299; end;\nprint(\"~\\n\", o.wide({}));\n", params.join(", "), args.join(", ")),
        Some(format!("start\n{}\n", 0 + 255 + 256 + 299)),
    ));
    let digits: Vec<String> = (0..300).map(|i| (i % 10).to_string()).collect();
    v.push((
        "capacity-print-arguments-300".into(),
        format!("print(\"start\\n\");\nprint(\"{}\\n\", {});\n", "~".repeat(300), digits.join(", ")),
        Some(format!("start\n{}\n", digits.join(""))),
    ));
    let mut s = String::from("print(\"start\\n\");\nlet o = object begin\n");
    for i in 0..40_000 {
        s.push_str(&format!("let f{} = {};\n", i, i % 1000));
    }
    s.push_str("end;\nprint(\"~\\n\", o.f0 + o.f32767 + o.f32768 + o.f39999);\n");
    v.push(("capacity-fields-40000".into(), s, Some(format!("start\n{}\n", 0 + 32767 % 1000 + 32768 % 1000 + 39999 % 1000))));
    v.push(("nest-fields".into(), format!("let o = object begin let f = null; end;\no.f <- o;\nprint(\"~\\n\", null == o{}.f);\n", ".f".repeat(d)), Some("false\n".into())));
    v
}

pub fn c10(ctx: &Ctx, rep: &mut Report) {
    let dir = ctx.scratch("c10");
    if let Some(r) = &ctx.replay {
        if let (Some(b64s), Some(expect), Some(ok)) = (r.get("bytecode_b64").and_then(|s| s.as_str()), r.get("expected_stdout").and_then(|s| s.as_str()), r.get("expected_success").and_then(|s| s.as_bool())) {
            let b = dir.join("replay.bc");
            if std::fs::write(&b, super::super::unb64(b64s)).is_ok() {
                let e = cli::run(cli::Spec::new(&["execute", b.to_str().unwrap()]));
                rep.evaluations += 1;
                if crash_freedom(rep, "replay", "fml execute", &e, r) && (e.success() != ok || e.out_str() != expect) {
                    rep.violation("C10:bytecode:replay", format!("`fml execute` must {} with stdout {:?}; observed {}", if ok { "succeed" } else { "fail" }, expect, e.describe()), r.clone());
                }
            }
            return;
        }
        if let (Some(shape), Some(true)) = (r.get("shape").and_then(|s| s.as_str()), r.get("regenerate").and_then(|b| b.as_bool())) {
            // large generated shapes are replayed by name
            for (name, src, expect) in hostile_shapes(false).into_iter().chain(hostile_shapes(true).into_iter()) {
                if name != shape {
                    continue;
                }
                let f = dir.join("replay-shape.fml");
                if std::fs::write(&f, &src).is_err() {
                    break;
                }
                let run = cli::fml_run_file(&f);
                rep.evaluations += 1;
                if (run.signal == Some(6) || run.signal == Some(11)) && (run.err_str().contains("overflowed its stack") || run.err_str().contains("stack-overflow")) {
                    rep.conclusive += 1;
                    let family = name.trim_end_matches(|c: char| c.is_ascii_digit()).trim_end_matches('-').to_string();
                    rep.violation(&format!("C10:native-stack-overflow:{}", family), format!("{}: `fml run` dies by SIGABRT (native stack overflow)", name), r.clone());
                } else if crash_freedom(rep, &name, "fml run", &run, r) {
                    if let Some(e) = &expect {
                        if !run.success() || run.out_str() != *e {
                            rep.violation(&format!("C10:hostile-shape:{}", name), format!("{}: expected success with the documented output; observed {}", name, run.describe()), r.clone());
                        }
                    }
                }
                break;
            }
            return;
        }
        let f = dir.join("replay.fml");
        if let Some(b) = r.get("source_b64").and_then(|s| s.as_str()) {
            let bytes = super::super::unb64(b);
            if std::fs::write(&f, &bytes).is_ok() {
                rep.evaluations += 1;
                let run = cli::fml_run_file(&f);
                let out = match String::from_utf8(bytes).ok().and_then(|s| real::parse(&s).ok()) {
                    Some(ast) => refsem::run(&ast, big_limits()),
                    None => Outcome { out: String::new(), res: Res::OutOfFragment("unparsable".into()), allocs: vec![], steps: 0, max_call_depth: 0, order_hazard: None, kinds: Default::default() },
                };
                if out.order_hazard.is_some() {
                    crash_freedom(rep, "replay", "fml run", &run, r);
                } else {
                    expect_cli(rep, "replay", "fml run", &run, &out, r, "replay");
                }
                if r.get("rejected").and_then(|x| x.as_bool()) == Some(false) && r.get("placement").is_some() {
                    if let Ok(text) = std::fs::read_to_string(&f) {
                        if real::parse(&text).is_err() {
                            rep.violation("C10:placement-refused", format!("{}: the documented grammar admits it, the parser rejects it", r.get("placement").and_then(|p| p.as_str()).unwrap_or("")), r.clone());
                        }
                    }
                }
                if r.get("rejected").and_then(|x| x.as_bool()) == Some(true) && crash_ok(&run) && (run.success() || !run.stdout.is_empty()) {
                    rep.violation("C10:invalid-source-not-rejected", format!("invalid source is not rejected cleanly: {}", run.describe()), r.clone());
                }
            }
        }
        return;
    }
    let lim = big_limits();
    // (3) hostile shapes, deterministic
    let mut k = 0u64;
    for (name, src, expect) in hostile_shapes(ctx.quick()) {
        k += 1;
        if !ctx.mine(k) {
            continue;
        }
        // stack depth is probed in the plain builds: an instrumented build (AddressSanitizer red zones, Miri) has frames of
        // another size, so what overflows there says nothing about the toolchain
        if ctx.build != "release" && ctx.build != "debug" && (name.starts_with("deep-") || name.contains("recursion-depth-") || name.starts_with("recursion-") || name.starts_with("method-recursion-") || name.starts_with("fault-after-deep-")) {
            continue;
        }
        // the debug build needs most of a minute to refuse 70 000 constants: release only in the quick tier
        if ctx.quick() && cfg!(debug_assertions) && ["capacity-constants-70000", "capacity-locals-70000", "capacity-fields-40000", "long-run-3000000-iterations", "many-prints-150000", "fault-after-recursion-depth-1000000", "fault-after-method-recursion-depth-1000000"].contains(&name.as_str()) {
            continue;
        }
        let f = dir.join(format!("h{}.fml", k));
        if std::fs::write(&f, &src).is_err() {
            continue;
        }
        rep.evaluations += 1;
        let replay = json!({"check":"C10","source_b64": super::super::b64(src.as_bytes()), "shape": name});
        let run = cli::fml_run_file(&f);
        rep.bump("c10-hostile-shape", name.split(|c: char| c.is_ascii_digit()).next().unwrap_or(&name).trim_end_matches('-'));
        // native recursion proportional to the nesting depth gets a signature of its own per shape (see
        // KNOWN_FINDINGS.txt); any other death by signal is reported by crash_freedom as usual
        // (the AddressSanitizer build words the same event differently and may deliver SIGSEGV)
        if name.starts_with("deep-") && (run.signal == Some(6) || run.signal == Some(11)) && (run.err_str().contains("overflowed its stack") || run.err_str().contains("stack-overflow")) {
            rep.conclusive += 1;
            let family = name.trim_end_matches(|c: char| c.is_ascii_digit()).trim_end_matches('-').to_string();
            rep.violation(
                &format!("C10:native-stack-overflow:{}", family),
                format!("{}: `fml run` dies by SIGABRT, \"thread 'main' has overflowed its stack\" (native recursion proportional to the nesting depth); stdout before it: {:?}", name, cli::truncate(&run.out_str(), 40)),
                json!({"check":"C10","shape": name, "regenerate": true}),
            );
            continue;
        }
        if crash_freedom(rep, &name, "fml run", &run, &replay) {
            rep.nontrivial(hash_str(&src));
            if let (Some(e), true) = (&expect, name.starts_with("fault-after-")) {
                rep.bump("c10-fault-after-output", "programs");
                if run.success() || run.out_str() != *e {
                    rep.violation(
                        "C10:hostile-shape:fault-after-output",
                        format!("{}: must fail with exactly the {} bytes printed before the failure on stdout; observed exit {:?}, {} bytes{}", name, e.len(), run.code, run.stdout.len(), if run.stdout.len() < 80 { format!(" {:?}", run.out_str()) } else { String::new() }),
                        replay.clone(),
                    );
                }
            } else if let (Some(e), true) = (&expect, name.starts_with("capacity-")) {
                rep.bump("c10-capacity-shapes", if run.success() { "runs" } else { "refused" });
                if !((run.success() && run.out_str() == *e) || (!run.success() && run.stdout.is_empty())) {
                    rep.violation(
                        &format!("C10:hostile-shape:{}", name),
                        format!("{}: a program beyond the format's capacity must run correctly (stdout {:?}) or be refused before anything runs; observed {}", name, cli::truncate(e, 60), run.describe()),
                        replay.clone(),
                    );
                }
            } else if let Some(e) = &expect {
                if !run.success() || run.out_str() != *e {
                    rep.violation(
                        &format!("C10:hostile-shape:{}", name),
                        format!("{}: expected success with stdout {:?}; observed {}", name, cli::truncate(e, 120), run.describe()),
                        replay.clone(),
                    );
                }
            } else if name.contains("ring") && name.ends_with("print") {
                // printing a value that contains itself: either the print fails — then stdout is
                // exactly the output before it, nothing of the failing print — or it prints
                // something finite and the program goes on
                let o = run.out_str();
                if !o.starts_with("built\n") {
                    rep.violation("C10:cyclic-print-output", format!("{}: output before the print is lost: {}", name, run.describe()), replay.clone());
                } else if !run.success() && o != "built\n" {
                    rep.violation("C10:cyclic-print-partial", format!("{}: the print of a self-containing value fails, yet part of its text reached stdout: {}", name, run.describe()), replay.clone());
                }
            }
        }
        // staged execute as well (same VM, different entry point)
        if k % 3 == 0 {
            if let Ok(ast) = real::parse(&src) {
                if let Ok(bytes) = real::compile(&ast).and_then(|p| real::serialize(&p)) {
                    let b = dir.join(format!("h{}.bc", k));
                    if std::fs::write(&b, &bytes).is_ok() {
                        rep.evaluations += 1;
                        let e = cli::run(cli::Spec::new(&["execute", b.to_str().unwrap()]));
                        if crash_freedom(rep, &name, "fml execute", &e, &replay) && (e.stdout != run.stdout || e.success() != run.success()) {
                            rep.violation("C10:execute-differs", format!("{}: execute ends with {}, run with {}", name, e.describe(), run.describe()), replay.clone());
                        }
                    }
                }
            }
        }
    }
    // (1b) an undefined operation inside every kind of surrounding construct: six faulting expressions x 16
    // expression wrappers x 34 statement contexts (argument of print, field initializer, parent, compound
    // array initializer, index, receiver, condition, loop body, method body ...), with tracers around
    let fault_constructs: Vec<usize> = (0..gen::MATRIX_CONSTRUCTS.len()).filter(|ci| gen::MATRIX_CONSTRUCTS[*ci].0.starts_with("fault-")).collect();
    for ci in fault_constructs.iter() {
        for wi in 0..gen::MATRIX_WRAPPERS.len() {
            for xi in 0..gen::MATRIX_CONTEXTS.len() {
                k += 1;
                if !ctx.mine(k) || (ctx.quick() && (k.wrapping_mul(0x9E37_79B9_7F4A_7C15).wrapping_add(ctx.seed) >> 24) % 4 != 0) {
                    continue;
                }
                let (name, src) = gen::matrix3_program(*ci, wi, xi);
                let ast = match real::parse(&src) {
                    Ok(a) => a,
                    Err(e) => {
                        rep.inconsistency(format!("fault matrix program {} does not parse: {}", name, e));
                        continue;
                    }
                };
                let out = refsem::run(&ast, lim);
                rep.evaluations += 1;
                if !out.judged() || out.order_hazard.is_some() {
                    rep.skip(res_name(&out.res));
                    continue;
                }
                let f = dir.join(format!("fm{}.fml", k % 16));
                if std::fs::write(&f, &src).is_err() {
                    continue;
                }
                let replay = json!({"check":"C10","source_b64": super::super::b64(src.as_bytes()), "fault": name});
                let run = if k % 3 == 0 { cli::fml_run_stdin(&src) } else { cli::fml_run_file(&f) };
                expect_cli(rep, &format!("fault-matrix:{}", name), "fml run", &run, &out, &replay, gen::MATRIX_CONSTRUCTS[*ci].0);
                rep.bump("c10-fault-in-construct", if out.failed() { "fault reached" } else { "fault not reached (dead position)" });
                rep.nontrivial(hash_str(&src));
            }
        }
    }
    // (3c) legal programs that merely look suspicious, through every tool: each stage succeeds with nothing on
    // stderr (a well-meant warning is a diagnostic on a successful run), and the result is what the rules say
    for (name, src) in stress_sources() {
        if !["lint-bait", "methods-named-like-builtins", "one-name-everywhere", "empty-lists", "trailing-separators", "algebraic-identities", "only-function-definition", "only-let", "empty-program",
            "only-comments", "shadowing-four-levels", "member-name-clashes-legal", "constant-lookalikes", "same-text-function-and-method", "parents-of-every-kind", "this-escapes"]
            .contains(&name.as_str())
        {
            continue;
        }
        k += 1;
        if !ctx.mine(k) {
            continue;
        }
        let ast = match real::parse(&src) {
            Ok(a) => a,
            Err(_) => continue,
        };
        let out = refsem::run(&ast, lim);
        if !out.judged() || out.failed() {
            continue;
        }
        let f = dir.join(format!("legal{}.fml", k));
        let j = dir.join(format!("legal{}.json", k));
        let b = dir.join(format!("legal{}.bc", k));
        if std::fs::write(&f, &src).is_err() {
            continue;
        }
        let replay = json!({"check":"C10","source_b64": super::super::b64(src.as_bytes()), "legal": name});
        let stages: Vec<(&str, cli::CliRun)> = vec![
            ("fml run", cli::fml_run_file(&f)),
            ("fml parse", cli::run(cli::Spec::new(&["parse", f.to_str().unwrap(), "--format", "json", "-o", j.to_str().unwrap()]))),
            ("fml compile", cli::run(cli::Spec::new(&["compile", j.to_str().unwrap(), "-o", b.to_str().unwrap()]))),
            ("fml execute", cli::run(cli::Spec::new(&["execute", b.to_str().unwrap()]))),
            ("fml disassemble", cli::run(cli::Spec::new(&["disassemble", b.to_str().unwrap()]))),
        ];
        for (how, r) in stages.iter() {
            rep.evaluations += 1;
            if !crash_freedom(rep, &format!("legal:{}", name), how, r, &replay) {
                continue;
            }
            rep.bump("c10-legal-but-unusual", how);
            if !r.success() {
                rep.violation("C10:legal-program-refused", format!("{}: `{}` fails on a legal program: {}", name, how, r.describe()), replay.clone());
            } else if (*how == "fml run" || *how == "fml execute") && r.out_str() != out.out {
                rep.violation("C10:legal-program-output", format!("{}: `{}` prints {:?}, the rules say {:?}", name, how, cli::truncate(&r.out_str(), 200), cli::truncate(&out.out, 200)), replay.clone());
            }
        }
        let _ = std::fs::remove_file(&f);
        let _ = std::fs::remove_file(&j);
        let _ = std::fs::remove_file(&b);
    }
    // (3b) hand-assembled bytecode through `fml execute`: instructions that are undefined only when they
    // run (undefined escape, placeholder mismatch, unknown function, duplicate members, unknown
    // global) sit in dead code or after earlier output; the run stops exactly where one executes
    for (name, prog, expect, ok) in super::vm::special_programs() {
        k += 1;
        if !ctx.mine(k) {
            continue;
        }
        let bytes = super::super::bcfmt::write(&prog);
        let b = dir.join(format!("special{}.bc", k));
        if std::fs::write(&b, &bytes).is_err() {
            continue;
        }
        let replay = json!({"check":"C10","bytecode_b64": super::super::b64(&bytes), "expected_stdout": expect, "expected_success": ok, "special": name});
        for via_stdin in [false, true].iter() {
            let e = if *via_stdin { cli::run(cli::Spec::new(&["execute"]).stdin(&bytes)) } else { cli::run(cli::Spec::new(&["execute", b.to_str().unwrap()])) };
            rep.evaluations += 1;
            if crash_freedom(rep, name, "fml execute", &e, &replay) {
                rep.bump("c10-hand-assembled-bytecode", if ok { "runs to the end" } else { "fails where the instruction executes" });
                if e.success() != ok || e.out_str() != expect || (!ok && e.stderr.is_empty()) || (ok && !e.stderr.is_empty()) {
                    rep.violation(
                        &format!("C10:bytecode:{}", name),
                        format!("{}: `fml execute` must {} with stdout {:?}; observed {}", name, if ok { "succeed" } else { "fail" }, expect, e.describe()),
                        replay.clone(),
                    );
                }
            }
        }
        let _ = std::fs::remove_file(&b);
    }
    // (2a) a fixed list of invalid sources: each must be rejected as a whole — nothing runs, nothing
    // reaches stdout, a diagnostic goes to stderr, the exit status is non-zero
    let invalid: [&str; 56] = [
        "total + i #! + 1000", "#!/usr/bin/env fml\nprint(\"x\")", "a # b", "a ! b", "a && b", "a || b", "a ** b", "1 #! comment-like",
        "2147483648", "-2147483649", "99999999999999999999", "let big = 4294967298", "array(4294967298, 7)", "print(\"\\q\")", "print(\"open", "/* open", "1 /* a */ */",
        "a @ b", "a $ b", "a ? b", "let = 1", "1 +", "+ 1", "begin", "end", "begin 1", "1 end", "if a then", "if a 1", "then 1", "else 1", "f(1 2)", "f(1,,2)", "a.", ".a", "a..b",
        "x <-", "<- 1", "let 1 = 2", "let x 1", "function (a) -> a", "function f(1) -> 1", "function f(a) a", "array(1)", "array(1, 2, 3)", "print(1)", "print()",
        "a[1", "a]", "a b", "1 2", "while a b", "object extends begin end", "object begin 1 end", "a = 1", "let x = = 1",
    ];
    // spellings other languages use (none of them FML): literal forms, operators, statements, separators left out
    let more_invalid: [&str; 43] = [
        "0x10", "1_000", "1e3", "1.5", "'a'", "let s = \"abc\"", "print(\"~\", \"str\")", "x++", "x += 1", "!x", "let x = 1; -x", "not x", "a[1:2]", "[1, 2, 3]", "{ }", "f(a = 1)", "a ? b : c",
        "let x: int = 1", "return 1", "a and b", "a or b", "a mod b", "a === b", "a <> b", "a ^ b", "a ~ b", "a << 1", "a >> 1", "-- comment", "1;;2", "begin ; end", "print(\"a\" \"b\")",
        "print(\"~\" 1)", "let x = 1 let y = 2", "function f() -> 1 function g() -> 2", "object begin let a = 1 let b = 2 end", "a.b.(c)", "a.1", "this.", "let begin = 1", "f()()", "a[1][",
        "print(\"~\\n\", 1",
    ];
    let mut invalid: Vec<String> = invalid.iter().map(|s| s.to_string()).chain(more_invalid.iter().map(|s| s.to_string())).collect();
    // a backslash in a string literal may only be followed by ~ n t r \ or the double quote
    for c in 0x20u8..0x7f {
        let ch = c as char;
        if !['~', 'n', 't', 'r', '\\', '"'].contains(&ch) {
            invalid.push(format!("print(\"a\\{}b\")", ch));
        }
    }
    for ch in ['\u{e9}', '\u{2028}', '\n', '\t', '\u{0}'].iter() {
        invalid.push(format!("print(\"a\\{}b\")", ch));
    }
    for (n, bad) in invalid.iter().enumerate() {
        k += 1;
        if !ctx.mine(k) {
            continue;
        }
        for form in 0..2 {
            let src = if form == 0 { format!("{}\n", bad) } else { format!("print(\"must not run\\n\");\n{};\nprint(\"nor this\\n\");\n", bad) };
            let f = dir.join(format!("inv{}.fml", n));
            if std::fs::write(&f, &src).is_err() {
                continue;
            }
            rep.evaluations += 1;
            let replay = json!({"check":"C10","source_b64": super::super::b64(src.as_bytes()), "rejected": true});
            let run = if n % 3 == 0 { cli::fml_run_stdin(&src) } else { cli::fml_run_file(&f) };
            rep.bump("c10-invalid-source-list", "sources");
            // the staged tool rejects it the same way: `fml parse` may not exit 0 or print an AST
            if form == 0 {
                let pr = cli::run(cli::Spec::new(&["parse", f.to_str().unwrap(), "--format", "json"]));
                rep.evaluations += 1;
                if crash_freedom(rep, &format!("invalid#{}", n), "fml parse", &pr, &replay) && (pr.success() || !pr.stdout.is_empty()) {
                    rep.violation(
                        "C10:invalid-source-not-rejected-by-parse",
                        format!("invalid source {:?}: `fml parse` {}: {}", bad, if pr.success() { "exits 0" } else { "prints to stdout" }, pr.describe()),
                        replay.clone(),
                    );
                }
            }
            if crash_freedom(rep, &format!("invalid#{}", n), "fml run", &run, &replay) {
                rep.nontrivial(hash_str(&src));
                if run.success() || !run.stdout.is_empty() {
                    rep.violation(
                        "C10:invalid-source-not-rejected",
                        format!("invalid source {:?} is not rejected: `fml run` {}: {}", bad, if run.success() { "exits 0" } else { "prints to stdout" }, run.describe()),
                        replay,
                    );
                }
            }
        }
    }
    // (2b) placement matrix: which statement forms the documented grammar admits where. Function
    // definitions only at the top level and as object members, operator definitions only as members,
    // members only `let` / method / operator, every other form wherever an expression may stand.
    // Everything else is invalid source and must be rejected as a whole.
    let forms: [(&str, &str); 15] = [
        ("function", "function zf(q) -> q"),
        ("operator", "function +(q) -> q"),
        ("function-print", "function print(q) -> q"),
        ("let", "let zv = 1"),
        ("assign-variable", "g <- 2"),
        ("assign-field", "o.f <- 2"),
        ("assign-element", "a[0] <- 2"),
        ("print", "print(\"p\")"),
        ("object", "object begin end"),
        ("if-else", "if true then 1 else 2"),
        ("if", "if true then 1"),
        ("while", "while false do 1"),
        ("operation", "1 + 2"),
        ("call", "h(1)"),
        ("block", "begin 1 end"),
    ];
    let positions: [(&str, &str); 27] = [
        ("top", "X"),
        ("top-middle", "1; X; 2"),
        ("block", "begin 1; X; 2 end"),
        ("block-only", "begin X end"),
        ("member", "object begin X end"),
        ("member-middle", "object begin let m1 = 1; X; let m2 = 2 end"),
        ("function-body", "function w() -> X"),
        ("method-body", "object begin function w() -> X end"),
        ("parentheses", "(X)"),
        ("argument", "h(X)"),
        ("second-argument", "h2(1, X)"),
        ("array-size", "array(X, 0)"),
        ("array-initializer", "array(1, X)"),
        ("condition", "if X then 1 else 2"),
        ("then-branch", "if true then X else 2"),
        ("else-branch", "if true then 1 else X"),
        ("loop-condition", "while X do 1"),
        ("loop-body", "while false do X"),
        ("let-value", "let r = X"),
        ("print-argument", "print(\"~\", X)"),
        ("parent", "object extends X begin end"),
        ("index", "a[X]"),
        ("assigned-variable-value", "g <- X"),
        ("assigned-field-value", "o.f <- X"),
        ("assigned-element-value", "a[0] <- X"),
        ("right-operand", "1 + X"),
        ("method-argument", "o.m(X)"),
    ];
    for (fname, form) in forms.iter() {
        for (pname, pos) in positions.iter() {
            k += 1;
            if !ctx.mine(k) {
                continue;
            }
            let is_def = fname.starts_with("function") || *fname == "operator";
            let expect_ok = match *pname {
                "top" | "top-middle" => *fname != "operator",
                "member" | "member-middle" => is_def || *fname == "let",
                // an operand must be a call, a block, a literal … : only the definitions are pinned here
                "right-operand" => {
                    if is_def {
                        false
                    } else {
                        continue;
                    }
                }
                _ => !is_def,
            };
            let body = pos.replacen('X', form, 1);
            let src = format!("print(\"must not run\\n\");\nlet g = 0; let o = object begin let f = 0; function m(p) -> p end; let a = array(2, 0);\nfunction h(p) -> p; function h2(p, r) -> p;\n{};\nprint(\"end\\n\");\n", body);
            rep.evaluations += 1;
            rep.conclusive += 1;
            rep.bump("c10-placement-matrix", if expect_ok { "admitted cells" } else { "rejected cells" });
            let replay = json!({"check":"C10","source_b64": super::super::b64(src.as_bytes()), "rejected": !expect_ok, "placement": format!("{} as {}", fname, pname)});
            let parsed = real::parse(&src);
            if parsed.is_ok() != expect_ok {
                rep.violation(
                    if expect_ok { "C10:placement-refused" } else { "C10:invalid-source-not-rejected" },
                    format!("`{}` ({} in position {}): the documented grammar {} it, the parser {}", body, fname, pname, if expect_ok { "admits" } else { "does not admit" }, if parsed.is_ok() { "accepts it" } else { "rejects it" }),
                    replay.clone(),
                );
                continue;
            }
            if !expect_ok {
                let f = dir.join(format!("place{}.fml", k % 8));
                if std::fs::write(&f, &src).is_err() {
                    continue;
                }
                let run = if k % 3 == 0 { cli::fml_run_stdin(&src) } else { cli::fml_run_file(&f) };
                rep.evaluations += 1;
                if crash_freedom(rep, &format!("placement:{}@{}", fname, pname), "fml run", &run, &replay) {
                    rep.nontrivial(hash_str(&src));
                    if run.success() || !run.stdout.is_empty() {
                        rep.violation(
                            "C10:invalid-source-not-rejected",
                            format!("`{}` ({} in position {}) is invalid source but `fml run` {}: {}", body, fname, pname, if run.success() { "exits 0" } else { "prints to stdout" }, run.describe()),
                            replay,
                        );
                    }
                }
            }
        }
    }
    // (1) fault injection: every statement position x every fault class
    let programs = ctx.share(24, 600);
    let mut cli_budget = ctx.share(6_000, 150_000) as i64;
    for pi in 0..programs * 6 {
        if cli_budget <= 0 || (ctx.out_of_time() && pi > programs / 2) {
            break;
        }
        let mut rng = ctx.rng("C10fault", pi);
        let mut o = gen::GenOpts::default();
        o.budget = 40 + (pi % 3) as i32 * 25;
        let base = gen::well_behaved(&mut rng, o);
        // keep programs that run to completion and print something
        let b0 = refsem::run(&base, lim);
        if b0.res != Res::Ok || b0.out.is_empty() || b0.order_hazard.is_some() {
            continue;
        }
        let positions = gen::fault_positions(&base);
        rep.bump_n("c10-fault-positions-per-program", &format!("{}", (positions.len() / 5 * 5).min(60)), 1);
        let mut tag = 0usize;
        for (li, pos) in positions.iter() {
            for (ci, class) in gen::FAULT_CLASSES.iter().enumerate() {
                tag += 1;
                // in the quick tier every position gets a rotating third of the classes
                if ctx.quick() && (ci + *pos + *li) % 3 != (pi % 3) as usize {
                    continue;
                }
                let mut ast = base.clone();
                gen::add_fault_helpers(&mut ast);
                if !gen::insert_at(&mut ast, *li, *pos, gen::fault_statement(class, tag)) {
                    continue;
                }
                let src = match printer::to_source(&ast) {
                    Ok(s) => s,
                    Err(_) => continue,
                };
                let out = refsem::run(&ast, lim);
                rep.evaluations += 1;
                if !out.judged() || out.order_hazard.is_some() {
                    rep.skip(res_name(&out.res));
                    continue;
                }
                let reached = out.failed();
                rep.bump("c10-fault-class", class);
                rep.bump("c10-fault-reached", if reached { "reached" } else { "not-reached" });
                // in-process first (cheap, exact)
                let p = real::pipeline_from_ast(&ast, cap_for(&out), true);
                let (r_out, r_ok) = match (&p.stage_error, &p.run) {
                    (Some(_), _) => (String::new(), false),
                    (None, Some(r)) => (r.out.clone(), r.ok),
                    _ => unreachable!(),
                };
                let replay = json!({"check":"C10","source_b64": super::super::b64(src.as_bytes()), "fault": class});
                if r_ok == reached || r_out != out.out {
                    rep.conclusive += 1;
                    rep.violation(
                        &format!("C10:fault:{}", class),
                        format!("fault {} at list {} position {}: expected {} with stdout {:?}; in-process ok={} stdout={:?}\n{}", class, li, pos, if reached { "failure" } else { "success" }, cli::truncate(&out.out, 200), r_ok, cli::truncate(&r_out, 200), cli::truncate(&src, 400)),
                        replay.clone(),
                    );
                    continue;
                }
                // then the real CLI
                let f = dir.join(format!("f{}.fml", pi));
                if std::fs::write(&f, &src).is_err() {
                    continue;
                }
                // the memory flags are inert (C16): a faulting run must end the same way with them
                let run = if tag % 5 == 0 {
                    cli::fml_run_stdin(&src)
                } else if tag % 7 == 0 {
                    cli::run(cli::Spec::new(&["run", f.to_str().unwrap(), "--heap-log", "/dev/null", "--heap-size", ["1", "0", "1024"][tag % 3]]))
                } else {
                    cli::fml_run_file(&f)
                };
                cli_budget -= 1;
                expect_cli(rep, &format!("fault#{}:{}@{}/{}", pi, class, li, pos), "fml run", &run, &out, &replay, class);
                // the same run with a standard error stream that cannot be written (full device, closed
                // descriptor) or that is the same pipe as stdout: still no abort, same status, same stdout
                if tag % 11 == 0 {
                    if let Ok(exe) = std::env::current_exe() {
                        let v = (tag / 11) % 3;
                        let script = ["exec \"$0\" run \"$1\" 2>/dev/full", "exec \"$0\" run \"$1\" 2>&-", "exec \"$0\" run \"$1\" 2>&1 <&-"][v];
                        let r = cli::run(cli::Spec::new(&["-c", script, exe.to_str().unwrap_or("fml"), f.to_str().unwrap()]).exe(std::path::Path::new("/bin/bash")));
                        cli_budget -= 1;
                        rep.evaluations += 1;
                        if !r.timed_out && r.spawn_error.is_none() {
                            rep.conclusive += 1;
                            rep.bump("c10-hostile-stderr", ["stderr on a full device", "stderr closed", "stderr and stdout on one pipe, stdin closed"][v]);
                            let what = ["2>/dev/full", "2>&-", "2>&1 <&-"][v];
                            if r.signal.is_some() {
                                rep.violation("C10:hostile-stderr:signal", format!("fault {}: `fml run FILE {}` dies by a signal: {}", class, what, r.describe()), replay.clone());
                            } else if r.success() == reached {
                                rep.violation("C10:hostile-stderr:status", format!("fault {}: `fml run FILE {}` exits with {:?}, expected {}", class, what, r.code, if reached { "failure" } else { "success" }), replay.clone());
                            } else if (v < 2 && r.out_str() != out.out) || (v == 2 && ((!reached && r.out_str() != out.out) || (reached && r.out_str().len() <= out.out.len()))) {
                                // (merged streams: where the diagnostic lands relative to still-buffered
                                // output is not pinned by the property; only that both arrive)
                                rep.violation(
                                    "C10:hostile-stderr:stdout",
                                    format!("fault {}: `fml run FILE {}`: stdout {:?}, expected {}{:?}", class, what, cli::truncate(&r.out_str(), 300), if v == 2 { "the diagnostic after " } else { "" }, cli::truncate(&out.out, 300)),
                                    replay.clone(),
                                );
                            }
                        }
                    }
                }
                rep.nontrivial(hash_str(&src));
                if rep.samples.len() < 2 && reached && src.len() < 700 {
                    rep.sample(json!({"fault_class": class, "src": src, "expected_stdout": out.out, "observed_exit": run.code, "observed_stderr": cli::truncate(&run.err_str(), 200)}));
                }
            }
        }
    }
    // (2) malformed sources from token-level mutation
    let n = ctx.share(2_400, 60_000);
    for i in 0..n {
        if ctx.out_of_time() && i > n / 3 {
            rep.notes.push(format!("time budget reached after {} of {} mutated sources", i, n));
            break;
        }
        let mut rng = ctx.rng("C10mut", i);
        let c = match well_behaved_case(&mut rng, i) {
            Some(c) => c,
            None => continue,
        };
        let toks = match printer::tokens(&c.ast, printer::Style::minimal()) {
            Ok(t) => t,
            Err(_) => continue,
        };
        let kind = MUTATIONS[(i % MUTATIONS.len() as u64) as usize];
        let bytes = mutate_tokens(&toks, &mut rng, kind);
        let f = dir.join(format!("m{}.fml", i % 64));
        if std::fs::write(&f, &bytes).is_err() {
            continue;
        }
        rep.evaluations += 1;
        let replay_base = json!({"check":"C10","source_b64": super::super::b64(&bytes), "mutation": kind});
        // these mutations make the source invalid wherever they land (tokens are never inserted
        // inside a string or comment): the verdict does not depend on what FML's parser thinks
        let invalid_by_construction = ["unterminated-comment", "bad-escape", "huge-literal", "invalid-utf8", "stray-character"].contains(&kind);
        let parsed = if invalid_by_construction { None } else { String::from_utf8(bytes.clone()).ok().and_then(|s| real::parse(&s).ok()) };
        if invalid_by_construction {
            rep.bump("c10-mutation-oracle", "invalid-by-construction");
        } else {
            rep.bump("c10-mutation-oracle", "classified-by-parser");
        }
        let run = if i % 4 == 0 { cli::run(cli::Spec::new(&["run"]).stdin(&bytes)) } else { cli::fml_run_file(&f) };
        rep.bump("c10-mutation", kind);
        match parsed {
            None => {
                rep.bump("c10-mutation-result", "rejected");
                let mut rp = replay_base.clone();
                rp["rejected"] = json!(true);
                if i % 3 == 0 {
                    let pr = cli::run(cli::Spec::new(&["parse", f.to_str().unwrap(), "--format", "lisp"]));
                    rep.evaluations += 1;
                    if crash_freedom(rep, &format!("mutated#{}:{}", i, kind), "fml parse", &pr, &rp) && (pr.success() || !pr.stdout.is_empty()) {
                        rep.violation(
                            "C10:invalid-source-not-rejected-by-parse",
                            format!("mutated#{} ({}): `fml parse` {} on a source that must be rejected: {}", i, kind, if pr.success() { "exits 0" } else { "prints to stdout" }, pr.describe()),
                            rp.clone(),
                        );
                    }
                }
                if crash_freedom(rep, &format!("mutated#{}:{}", i, kind), "fml run", &run, &rp) {
                    rep.nontrivial(hash_bytes(&bytes));
                    if run.success() || !run.stdout.is_empty() {
                        rep.violation(
                            "C10:invalid-source-not-rejected",
                            format!("mutated#{} ({}): the parser rejects this source, yet `fml run` {}: {}", i, kind, if run.success() { "exits 0" } else { "prints to stdout" }, run.describe()),
                            rp,
                        );
                    }
                }
            }
            Some(ast) => {
                rep.bump("c10-mutation-result", "still-parses");
                let out = refsem::run(&ast, default_limits());
                if out.res == Res::Fuel {
                    rep.skip("reference-fuel");
                    continue;
                }
                if out.order_hazard.is_some() || !out.judged() {
                    crash_freedom(rep, &format!("mutated#{}:{}", i, kind), "fml run", &run, &replay_base);
                } else {
                    expect_cli(rep, &format!("mutated#{}:{}", i, kind), "fml run", &run, &out, &replay_base, "mutated");
                }
                rep.nontrivial(hash_bytes(&bytes));
            }
        }
    }
}

fn crash_ok(r: &cli::CliRun) -> bool {
    !r.timed_out && r.spawn_error.is_none() && r.signal.is_none()
}

// ---------------------------------------------------------------------------------------------
// C16

#[derive(Debug, Clone)]
struct LogRecord {
    ts: u128,
    event: String,
    heap: u64,
}

fn parse_heap_log(text: &str) -> Result<Vec<LogRecord>, String> {
    let mut lines = text.split('\n');
    match lines.next() {
        Some("timestamp,event,heap") => {}
        other => return Err(format!("header is {:?}", other)),
    }
    let mut v = Vec::new();
    let rest: Vec<&str> = lines.collect();
    for (i, l) in rest.iter().enumerate() {
        if l.is_empty() {
            if i + 1 == rest.len() {
                continue;
            }
            return Err(format!("empty line {}", i + 2));
        }
        let parts: Vec<&str> = l.split(',').collect();
        if parts.len() != 3 {
            return Err(format!("line {} has {} fields: {:?}", i + 2, parts.len(), l));
        }
        let ts = parts[0].parse::<u128>().map_err(|_| format!("line {}: timestamp {:?} is not numeric", i + 2, parts[0]))?;
        let heap = parts[2].parse::<u64>().map_err(|_| format!("line {}: heap {:?} is not numeric", i + 2, parts[2]))?;
        v.push(LogRecord { ts, event: parts[1].to_owned(), heap });
    }
    Ok(v)
}

#[derive(Debug, Clone, Default)]
struct SizeModel {
    arr0: i64,
    per_elem: i64,
    obj0: i64,
    per_field: i64,
    per_method: i64,
}

impl SizeModel {
    fn predict(&self, a: &Alloc) -> i64 {
        match a {
            Alloc::Array(n) => self.arr0 + self.per_elem * *n as i64,
            Alloc::Object { fields, methods } => {
                self.obj0 + fields.iter().map(|f| f.len() as i64 + self.per_field).sum::<i64>() + methods.iter().map(|m| m.len() as i64 + self.per_method).sum::<i64>()
            }
        }
    }
}

/// Log locations whose names are unusual but perfectly legal: the CSV must appear at exactly the
/// path that was given (relative to the working directory), whatever HOME says.
fn odd_log_paths(tag: &str) -> Vec<std::path::PathBuf> {
    use std::os::unix::ffi::OsStringExt;
    let os = |b: &[u8]| std::path::PathBuf::from(std::ffi::OsString::from_vec(b.to_vec()));
    let t = |s: &str| format!("{}-{}", tag, s);
    vec![
        std::path::PathBuf::from("~").join(t("heap.csv")),
        os(format!("{}-lat", tag).as_bytes()).join(os(b"n\xe9\xff\xfe.csv")),
        os([t("raw").as_bytes(), b"\x80\xc3.csv"].concat().as_slice()),
        std::path::PathBuf::from(t("sp ace dir")).join("h\u{e9} ap\u{1f600}.csv"),
        std::path::PathBuf::from(".").join(t("dot")).join("..").join(t("dotdot.csv")),
        std::path::PathBuf::from(t("~tilde.csv")),
        std::path::PathBuf::from(t("$HOME")).join("${HOME}.csv"),
        std::path::PathBuf::from(t("*glob?[x].csv")),
        std::path::PathBuf::from(t("line\nbreak.csv")),
        std::path::PathBuf::from(t("%s%n{}.csv")),
        std::path::PathBuf::from(t("trailing.dot.")),
        std::path::PathBuf::from(t("noextension")),
        std::path::PathBuf::from(format!("{}-{}.csv", tag, "l".repeat(180))),
        std::path::PathBuf::from(t("a")).join("b").join("c").join("d").join("e.csv"),
        // a symbolic link to a file that does not exist yet (in another directory), and a directory
        // component that is a symbolic link: set up by run_with_log_at
        std::path::PathBuf::from(t("linkfile.csv")),
        std::path::PathBuf::from(t("linkdir")).join("heap.csv"),
        // names other tools give a special meaning: a lone dash, a dash in a directory, device-like and option-like names
        std::path::PathBuf::from("-"),
        std::path::PathBuf::from(t("dir")).join("-"),
        std::path::PathBuf::from(t("stdout")),
        std::path::PathBuf::from("CON"),
        std::path::PathBuf::from(t("--heap-size")),
    ]
}

fn run_with_log(dir: &std::path::Path, src: &str, tag: &str, subdir: bool, via_execute: bool, heap_size: Option<&str>) -> Option<(cli::CliRun, Option<String>)> {
    run_with_log_at(dir, src, tag, subdir, via_execute, heap_size, None)
}

fn run_with_log_at(dir: &std::path::Path, src: &str, tag: &str, subdir: bool, via_execute: bool, heap_size: Option<&str>, odd: Option<&std::path::Path>) -> Option<(cli::CliRun, Option<String>)> {
    let f = dir.join(format!("{}.fml", tag));
    std::fs::write(&f, src).ok()?;
    // absolute paths, and (for some tags) paths relative to the working directory, with and
    // without a directory component
    let relative = odd.is_some() || tag.ends_with('1') || tag.ends_with('5') || tag.ends_with('9');
    let log_rel = match odd {
        Some(p) => p.to_path_buf(),
        None => if subdir { std::path::PathBuf::from(format!("{}-newdir", tag)).join("deeper").join("heap.csv") } else { std::path::PathBuf::from(format!("{}.csv", tag)) },
    };
    let log = dir.join(&log_rel);
    let _ = std::fs::remove_file(&log);
    let real_dir = dir.join(format!("{}-link-target", tag));
    if let Some(name) = log_rel.to_str() {
        if odd.is_some() && name.ends_with("linkfile.csv") {
            let _ = std::fs::create_dir_all(&real_dir);
            let _ = std::fs::remove_file(real_dir.join("real.csv"));
            let _ = std::os::unix::fs::symlink(real_dir.join("real.csv"), &log);
        } else if odd.is_some() && name.ends_with("linkdir/heap.csv") {
            let _ = std::fs::create_dir_all(&real_dir);
            let _ = std::fs::remove_file(real_dir.join("heap.csv"));
            if let Some(parent) = log.parent() {
                let _ = std::fs::remove_file(parent);
                let _ = std::os::unix::fs::symlink(&real_dir, parent);
            }
        }
    }
    let mut args: Vec<String> = Vec::new();
    if via_execute {
        let ast = real::parse(src).ok()?;
        let bytes = real::compile(&ast).and_then(|p| real::serialize(&p)).ok()?;
        let b = dir.join(format!("{}.bc", tag));
        std::fs::write(&b, bytes).ok()?;
        args.push("execute".into());
        args.push(b.to_str()?.into());
    } else {
        args.push("run".into());
        args.push(f.to_str()?.into());
    }
    if let Some(h) = heap_size {
        // both ways of attaching the value, before or after the input file
        let attached = h.len() % 2 == 1;
        let at = if tag.ends_with('3') || tag.ends_with('7') { 1 } else { args.len() };
        if attached {
            args.insert(at, format!("--heap-size={}", h));
        } else {
            args.insert(at, h.into());
            args.insert(at, "--heap-size".into());
        }
    }
    args.push("--heap-log".into());
    let argv: Vec<&str> = args.iter().map(|s| s.as_str()).collect();
    let home = dir.join(format!("{}-home", tag));
    let mut spec = cli::Spec::new(&argv).cwd(dir).os_arg(if relative { log_rel.as_os_str() } else { log.as_os_str() });
    if odd.is_some() {
        let _ = std::fs::create_dir_all(&home);
        spec = spec.env("HOME", home.to_str()?);
    }
    let r = cli::run(spec);
    let text = std::fs::read(&log).ok().map(|b| String::from_utf8_lossy(&b).into_owned());
    let _ = std::fs::remove_file(&log);
    if subdir && odd.is_none() {
        let _ = std::fs::remove_dir_all(dir.join(format!("{}-newdir", tag)));
    }
    if odd.is_some() {
        // whatever the run created for the odd name: the first path component below the scratch directory
        let _ = std::fs::remove_dir_all(&home);
        let _ = std::fs::remove_dir_all(&real_dir);
        if let Some(first) = log_rel.components().find(|c| matches!(c, std::path::Component::Normal(_))) {
            let top = dir.join(first.as_os_str());
            if top.is_dir() && !std::fs::symlink_metadata(&top).map(|m| m.file_type().is_symlink()).unwrap_or(false) {
                let _ = std::fs::remove_dir_all(&top);
            } else {
                let _ = std::fs::remove_file(&top);
            }
        }
    }
    Some((r, text))
}

fn increments(recs: &[LogRecord]) -> Vec<i64> {
    let mut v = Vec::new();
    let mut prev = 0i64;
    for r in recs.iter().filter(|r| r.event == "A") {
        v.push(r.heap as i64 - prev);
        prev = r.heap as i64;
    }
    v
}

fn calibrate_model(dir: &std::path::Path) -> Option<SizeModel> {
    let probe = |src: &str| -> Option<Vec<i64>> {
        let (r, text) = run_with_log(dir, src, "probe", false, false, None)?;
        if !r.success() {
            return None;
        }
        let recs = parse_heap_log(&text?).ok()?;
        Some(increments(&recs))
    };
    let a = probe("array(0, null); array(1, null); array(5, null);\n")?;
    let o = probe("object begin end; object begin let a = 1; end; object begin let abc = 1; end; object begin function m() -> 1; end; object begin function mmm() -> 1; end;\n")?;
    if a.len() != 3 || o.len() != 5 {
        return None;
    }
    let per_elem = a[1] - a[0];
    if a[2] - a[0] != 5 * per_elem {
        return None;
    }
    let per_field = o[1] - o[0] - 1;
    if o[2] - o[0] != 3 + per_field {
        return None;
    }
    let per_method = o[3] - o[0] - 1;
    if o[4] - o[0] != 3 + per_method {
        return None;
    }
    Some(SizeModel { arr0: a[0], per_elem, obj0: o[0], per_field, per_method })
}

pub fn c16(ctx: &Ctx, rep: &mut Report) {
    let dir = ctx.scratch("c16");
    let model = match calibrate_model(&dir) {
        Some(m) => m,
        None => {
            // the probes themselves violate the shape rule (or the flag is broken): report through
            // a regular case below with a degenerate model
            rep.notes.push("size model could not be calibrated from the probe programs".into());
            SizeModel::default()
        }
    };
    let calibrated = model.per_elem != 0;
    rep.notes.push(format!("calibrated size model on this binary: {:?}", model));
    let replay_src = ctx.replay.as_ref().and_then(|r| r.get("src")).and_then(|s| s.as_str()).map(|s| s.to_owned());
    // the fixed shapes that are about how many values a program creates come first (one per index), then generated programs
    let fixed: Vec<(String, String)> = if replay_src.is_some() {
        vec![]
    } else {
        stress_sources()
            .into_iter()
            .filter(|(name, _)| {
                [
                    "allocation-multiplicity", "empty-allocations", "nested-array-rows", "array-initializer-multiplicity", "constructor-instances", "shared-values", "aliasing-through-containers",
                    "linked-structures", "polymorphic-sites", "readme-array-size-let", "nested-object-literals", "parents-of-every-kind", "empty-lists", "member-name-clashes", "this-escapes",
                ]
                .contains(&name.as_str())
            })
            .collect()
    };
    // one run whose cumulative size passes 2^32 bytes (4.7 GB of real memory for a few seconds; one shard only; a run
    // that the machine cannot afford is inconclusive): the allocation history is written down here, not computed
    if replay_src.is_none() && calibrated && ctx.shard == 5 % ctx.nshards {
        let src = "print(\"start\\n\");\nlet a = array(200000000, 0);\nlet b = array(100000000, 0);\nlet c = array(3, a);\nlet o = object begin let f = b; end;\nprint(\"~ ~ ~\\n\", a[199999999], b[0], c[2][5]);\n";
        let allocs = vec![Alloc::Array(200_000_000), Alloc::Array(100_000_000), Alloc::Array(3), Alloc::Object { fields: vec!["f".into()], methods: vec![] }];
        let f = dir.join("four-gib.fml");
        let log = dir.join("four-gib.csv");
        let _ = std::fs::remove_file(&log);
        if std::fs::write(&f, src).is_ok() {
            for hs in [None, Some("1"), Some("4096")].iter() {
                let mut args = vec!["run", f.to_str().unwrap(), "--heap-log", log.to_str().unwrap()];
                if let Some(h) = hs {
                    args.push("--heap-size");
                    args.push(h);
                }
                let r = cli::run(cli::Spec::new(&args));
                let text = std::fs::read_to_string(&log).ok();
                let _ = std::fs::remove_file(&log);
                rep.evaluations += 1;
                let starved = r.timed_out || r.spawn_error.is_some() || r.signal == Some(9) || r.err_str().contains("memory allocation of");
                if starved {
                    rep.skip("not enough memory for the 4 GiB probe");
                    continue;
                }
                rep.conclusive += 1;
                rep.count("cli_runs", 1);
                rep.bump("c16-allocations", "cumulative size beyond 2^32 bytes");
                let replay = json!({"check":"C16","src":src});
                if !r.success() || r.out_str() != "start\n0 0 0\n" {
                    rep.violation("C16:four-gib-run", format!("a program allocating 4.8 GB in the VM's size model with --heap-log{}: {}", hs.map(|h| format!(" --heap-size {}", h)).unwrap_or_default(), r.describe()), replay.clone());
                    continue;
                }
                match text.as_ref().map(|t| parse_heap_log(t)) {
                    Some(Ok(recs)) => {
                        let inc = increments(&recs);
                        let want: Vec<i64> = allocs.iter().map(|a| model.predict(a)).collect();
                        if recs.len() != allocs.len() + 1 || inc != want {
                            rep.violation("C16:four-gib-log", format!("cumulative sizes beyond 2^32: increments {:?}, the shape model predicts {:?}", inc, want), replay.clone());
                        }
                    }
                    other => rep.violation("C16:four-gib-log", format!("no readable heap log: {:?}", other.map(|r| r.err())), replay.clone()),
                }
            }
        }
        let _ = std::fs::remove_file(&f);
    }
    let n = if replay_src.is_some() { 1 } else { ctx.share(1_500, 30_000) };
    // (every spelling the documented unsigned-integer option accepts: explicit plus sign, leading zeros)
    let sizes = ["0", "1", "7", "1024", "1048576", "17592186044416", "18446744073709551615", "+5", "+0", "007", "0000000000000000000001"];
    for i in 0..n {
        if ctx.out_of_time() && i > n / 3 {
            rep.notes.push(format!("time budget reached after {} of {} programs", i, n));
            break;
        }
        let mut rng = ctx.rng("C16", i);
        // fixed shape number j belongs to shard j mod nshards; this shard takes its share at i = 0, 1, ...
        let fixed_pick = fixed.iter().enumerate().filter(|(j, _)| j % ctx.nshards == ctx.shard).map(|(_, f)| f).nth(i as usize);
        let (ast, src): (AST, String) = match &replay_src {
            Some(s) => match real::parse(s) {
                Ok(a) => (a, s.clone()),
                Err(_) => return,
            },
            None if fixed_pick.is_some() => {
                let (name, s) = fixed_pick.unwrap();
                rep.bump("c16-allocations", &format!("fixed shape {}", name));
                match real::parse(s) {
                    Ok(a) => (a, s.clone()),
                    Err(_) => continue,
                }
            }
            None => {
                let mut o = gen::GenOpts::default();
                o.budget = 50 + (i % 4) as i32 * 30;
                o.objects = true;
                o.arrays = true;
                let mut ast = gen::well_behaved(&mut rng, o);
                if i % 5 == 4 {
                    // failing programs too: allocations up to the fault
                    let pos = gen::fault_positions(&ast);
                    if !pos.is_empty() {
                        let (l, p) = pos[rng.below(pos.len())];
                        gen::add_fault_helpers(&mut ast);
                        gen::insert_at(&mut ast, l, p, gen::fault_statement(gen::FAULT_CLASSES[rng.below(gen::FAULT_CLASSES.len())], i as usize));
                    }
                }
                if i % 7 == 3 {
                    // allocation in a loop
                    if let AST::Top(ss) = &mut ast {
                        if let Ok(AST::Top(extra)) = real::parse("let zi = 0; while zi < 6 do begin array(zi, zi); array(0, zi); array(0, begin zi end); object begin end; object begin let k = zi; function mm() -> 1; end; zi <- zi + 1 end;\n") {
                            ss.extend(extra);
                        }
                    }
                }
                if i % 6 == 1 {
                    // megabyte-sized values, so that the cumulative size crosses every small
                    // --heap-size (1, 7 MiB) in the middle of the allocation history
                    let k = [70_000, 200_000, 600_000, 1_000_000][(i as usize / 6) % 4];
                    if let AST::Top(ss) = &mut ast {
                        if let Ok(AST::Top(extra)) = real::parse(&format!(
                            "let zbig = array({k}, null); let zo = object begin let q = zbig; end; array(3, zo); let zbig2 = array({k}, 0); object begin end; let zj = 0; while zj < 4 do begin array({k} / 8, zj); object extends zo begin let w = zj; end; zj <- zj + 1 end; print(\"~ ~\\n\", zbig[{k} - 1], zbig2[0]);\n",
                            k = k
                        )) {
                            ss.extend(extra);
                        }
                    }
                }
                match printer::to_source(&ast) {
                    Ok(s) => (ast, s),
                    Err(_) => continue,
                }
            }
        };
        let out = refsem::run(&ast, default_limits());
        if !out.judged() || out.order_hazard.is_some() {
            rep.skip(res_name(&out.res));
            continue;
        }
        if out.allocs.iter().any(|a| matches!(a, Alloc::Array(n) if *n >= 70_000)) {
            rep.bump("c16-allocations", "programs allocating more than 1 MiB");
        }
        let replay = json!({"check":"C16","src":src});
        let tag = format!("p{}", i % 32);
        let f = dir.join(format!("{}.fml", tag));
        if std::fs::write(&f, &src).is_err() {
            continue;
        }
        // baseline: no flags
        let base = cli::fml_run_file(&f);
        rep.evaluations += 1;
        if base.timed_out || base.spawn_error.is_some() {
            rep.skip("cli-watchdog");
            continue;
        }
        rep.conclusive += 1;
        rep.count("cli_runs", 1);
        // flag settings: heap-log on (existing dir / new dir, run / execute), several heap sizes
        let settings: Vec<(bool, bool, Option<&str>)> = if ctx.quick() {
            vec![(i % 2 == 0, i % 3 == 0, None), (false, i % 2 == 1, Some(sizes[(i % 11) as usize])), (true, false, Some(sizes[((i + 3) % 11) as usize]))]
        } else {
            let mut v = vec![(false, false, None), (true, true, None)];
            for (k, s) in sizes.iter().enumerate() {
                v.push((k % 2 == 0, k % 3 == 0, Some(*s)));
            }
            v
        };
        // the log may also go to something that is not a regular file: behaviour must not change
        if i % 3 == 0 {
            let target = ["/dev/null", "/dev/stderr", "fifo"][(i as usize / 3) % 3];
            let fifo = dir.join(format!("{}.fifo", tag));
            let (path, drain) = if target == "fifo" {
                let _ = std::fs::remove_file(&fifo);
                let made = std::process::Command::new("mkfifo").arg(&fifo).status().map(|s| s.success()).unwrap_or(false);
                if made {
                    let fp = fifo.clone();
                    (fifo.to_str().unwrap_or("").to_string(), Some(std::thread::spawn(move || std::fs::read(&fp).map(|b| b.len()).unwrap_or(0))))
                } else {
                    (String::new(), None)
                }
            } else {
                (target.to_string(), None)
            };
            if !path.is_empty() {
                let r = cli::run(cli::Spec::new(&["run", f.to_str().unwrap(), "--heap-log", &path]));
                if let Some(d) = drain {
                    let _ = d.join();
                }
                let _ = std::fs::remove_file(&fifo);
                rep.evaluations += 1;
                if !r.timed_out && r.spawn_error.is_none() {
                    rep.conclusive += 1;
                    rep.count("cli_runs", 1);
                    rep.bump("c16-log-location", target);
                    // with /dev/stderr the log itself lands on stderr: only stdout and status are compared
                    if r.stdout != base.stdout || r.code != base.code || r.signal != base.signal {
                        rep.violation(
                            &format!("C16:flags-change-behaviour:log-to-{}", target.trim_start_matches("/dev/")),
                            format!("`run --heap-log {}` ends with {}; without flags: {}", target, r.describe(), base.describe()),
                            replay.clone(),
                        );
                    }
                }
            }
        }
        // one more setting per program: an unusually named (relative) log location
        let odd_paths = odd_log_paths(&tag);
        let odd_pick = odd_paths[(i as usize) % odd_paths.len()].clone();
        let mut settings: Vec<(bool, bool, Option<&str>, Option<std::path::PathBuf>)> = settings.into_iter().map(|(a, b, c)| (a, b, c, None)).collect();
        settings.push((false, i % 2 == 0, if i % 3 == 0 { Some("1") } else { None }, Some(odd_pick)));
        // the program (source, or bytecode for execute) on standard input and a log file that does not exist yet
        if i % 4 == 1 {
            let via_execute = i % 8 == 1;
            let log = dir.join(format!("{}-stdin-fresh.csv", tag));
            let _ = std::fs::remove_file(&log);
            let input: Option<Vec<u8>> = if via_execute { real::compile(&ast).and_then(|p| real::serialize(&p)).ok() } else { Some(src.as_bytes().to_vec()) };
            if let Some(input) = input {
                let r = cli::run(cli::Spec::new(&[if via_execute { "execute" } else { "run" }, "--heap-log", log.to_str().unwrap()]).stdin(&input));
                let text = std::fs::read_to_string(&log).ok();
                let _ = std::fs::remove_file(&log);
                rep.evaluations += 1;
                if !r.timed_out && r.spawn_error.is_none() {
                    rep.conclusive += 1;
                    rep.count("cli_runs", 1);
                    rep.bump("c16-log-location", "fresh file, program on stdin");
                    let what = format!("{} --heap-log NEWFILE < program", if via_execute { "execute" } else { "run" });
                    if r.stdout != base.stdout || r.code != base.code || r.signal != base.signal {
                        rep.violation("C16:flags-change-behaviour:stdin-program", format!("`{}` ends with {}; without flags: {}", what, r.describe(), base.describe()), replay.clone());
                    } else {
                        match text.as_ref().map(|t| parse_heap_log(t)) {
                            None => rep.violation("C16:log-missing", format!("`{}` wrote no heap log", what), replay.clone()),
                            Some(Err(e)) => rep.violation("C16:log-format", format!("`{}`: heap log is malformed: {}", what, e), replay.clone()),
                            Some(Ok(recs)) => {
                                if recs.len() != out.allocs.len() + 1 {
                                    rep.violation("C16:log-count", format!("`{}`: {} records for {} allocations", what, recs.len(), out.allocs.len()), replay.clone());
                                }
                            }
                        }
                    }
                }
            }
        }
        for (subdir, via_execute, hs, odd) in settings {
            let (r, text) = match run_with_log_at(&dir, &src, &tag, subdir, via_execute, hs, odd.as_deref()) {
                Some(x) => x,
                None => continue,
            };
            if let Some(o) = &odd {
                rep.bump("c16-log-location", &format!("odd name #{}", odd_paths.iter().position(|p| p == o).unwrap_or(99)));
            }
            rep.evaluations += 1;
            if r.timed_out || r.spawn_error.is_some() {
                rep.skip("cli-watchdog");
                continue;
            }
            rep.conclusive += 1;
            rep.count("cli_runs", 1);
            rep.bump("c16-heap-size", hs.unwrap_or("(default)"));
            rep.bump("c16-entry", if via_execute { "execute" } else { "run" });
            if odd.is_none() {
                rep.bump("c16-log-location", if subdir { "new-directory" } else { "existing-directory" });
            }
            let what = format!(
                "{} --heap-log{}{}",
                if via_execute { "execute" } else { "run" },
                match &odd {
                    Some(o) => format!(" {:?}", o),
                    None => if subdir { " (new dir)".to_string() } else { String::new() },
                },
                hs.map(|h| format!(" --heap-size {}", h)).unwrap_or_default()
            );
            if r.stdout != base.stdout || r.code != base.code || r.signal != base.signal {
                rep.violation(
                    &format!("C16:flags-change-behaviour{}", hs.map(|h| format!(":heap-size-{}", h)).unwrap_or_default()),
                    format!("`{}` ends with {}; without flags: {}\n{}", what, r.describe(), base.describe(), cli::truncate(&src, 300)),
                    replay.clone(),
                );
                continue;
            }
            let text = match text {
                Some(t) => t,
                None => {
                    rep.violation("C16:log-missing", format!("`{}` wrote no heap log", what), replay.clone());
                    continue;
                }
            };
            let recs = match parse_heap_log(&text) {
                Ok(r) => r,
                Err(e) => {
                    rep.violation("C16:log-format", format!("`{}`: heap log is malformed: {}", what, e), replay.clone());
                    continue;
                }
            };
            rep.count("heap_log_records", recs.len() as u64);
            if recs.is_empty() || recs[0].event != "S" || recs[0].heap != 0 {
                rep.violation("C16:log-start", format!("`{}`: first record is not `S` with heap 0: {:?}", what, recs.get(0)), replay.clone());
                continue;
            }
            if recs[1..].iter().any(|r| r.event != "A") {
                rep.violation("C16:log-events", format!("`{}`: unexpected event kinds {:?}", what, recs.iter().map(|r| r.event.clone()).collect::<std::collections::BTreeSet<_>>()), replay.clone());
                continue;
            }
            let allocs = &out.allocs;
            let a_recs = recs.len() - 1;
            if a_recs != allocs.len() {
                rep.violation(
                    "C16:log-count",
                    format!("`{}`: {} A records but the program creates {} arrays/objects\n{}", what, a_recs, allocs.len(), cli::truncate(&src, 300)),
                    replay.clone(),
                );
                continue;
            }
            let inc = increments(&recs);
            if inc.iter().any(|d| *d <= 0) {
                rep.violation("C16:log-not-increasing", format!("`{}`: cumulative size is not strictly increasing: increments {:?}", what, &inc[..inc.len().min(20)]), replay.clone());
                continue;
            }
            if calibrated {
                for (k, (d, a)) in inc.iter().zip(allocs.iter()).enumerate() {
                    if *d != model.predict(a) {
                        rep.violation(
                            "C16:log-shape",
                            format!("`{}`: allocation {} ({:?}) adds {} bytes; the shape model calibrated on this binary predicts {} (creation order or shape dependence broken)", what, k, a, d, model.predict(a)),
                            replay.clone(),
                        );
                        break;
                    }
                }
            } else {
                rep.violation("C16:size-model", "the five probe programs do not fit an affine size model: increments depend on more than the created value's shape".into(), replay.clone());
            }
            let mut prev = 0u128;
            for r in &recs {
                if r.ts < prev {
                    rep.count("timestamps_going_backwards", 1);
                }
                prev = r.ts;
            }
            for a in allocs {
                rep.bump("c16-allocations", match a {
                    Alloc::Array(_) => "array",
                    Alloc::Object { .. } => "object",
                });
            }
        }
        if out.allocs.len() >= 2 {
            rep.nontrivial(hash_str(&src));
        }
        if rep.samples.len() < 2 && out.allocs.len() >= 3 && src.len() < 600 {
            rep.sample(json!({"src": src, "allocation_history": format!("{:?}", out.allocs), "predicted_increments": out.allocs.iter().map(|a| model.predict(a)).collect::<Vec<_>>()}));
        }
    }
}

// ---------------------------------------------------------------------------------------------
// C11

fn big_program(rng: &mut Rng, i: u64) -> Option<(AST, String)> {
    // programs with many locals in several scopes, many labels, many globals/functions,
    // objects with >= 6 fields that get printed, many constants
    let mut s = String::new();
    let ng = 8 + rng.below(6);
    for g in 0..ng {
        s.push_str(&format!("let glob{} = {};\n", g, rng.range(-50, 5000)));
    }
    let nf = 8 + rng.below(4);
    for f in 0..nf {
        s.push_str(&format!("function fun{}(a, b) -> begin\n", f));
        let nl = 8 + rng.below(5);
        for l in 0..nl {
            s.push_str(&format!("  let loc{} = a * {} + b - glob{};\n", l, l + 1, rng.below(ng)));
        }
        s.push_str("  begin\n");
        for l in 0..4 {
            s.push_str(&format!("    let inner{} = loc{} + {};\n", l, rng.below(nl), l));
        }
        // the same names in several open scopes (shadowing), read and written from the inside
        s.push_str(&format!("    let loc0 = loc0 + 1000; let loc1 = inner0; let a = b; begin let loc0 = loc1 * 2; let inner0 = loc0 + a; loc0 <- inner0; inner1 <- loc0 + loc{} end;\n", rng.below(nl)));
        s.push_str(&format!("    if inner0 > inner1 then inner2 else if inner1 > {} then inner3 else loc0\n  end\nend;\n", rng.range(0, 100)));
    }
    let fields = ["zeta", "alpha", "mid", "Beta", "_u", "k1", "k10", "k2", "omega", "a"];
    s.push_str("let obj = object begin\n");
    let mut fs: Vec<&str> = fields.to_vec();
    rng.shuffle(&mut fs);
    for (k, f) in fs.iter().enumerate().take(6 + rng.below(4)) {
        s.push_str(&format!("  let {} = fun{}({}, {});\n", f, rng.below(nf), k, rng.range(0, 9)));
    }
    s.push_str("  function show() -> print(\"~\\n\", this);\nend;\nobj.show();\nprint(\"~\\n\", obj);\n");
    for k in 0..(8 + rng.below(5)) {
        s.push_str(&format!("if glob{} > {} then print(\"{}a ~\\n\", fun{}(glob{}, {})) else print(\"{}b ~\\n\", array(2, obj));\n", rng.below(ng), rng.range(0, 3000), k, rng.below(nf), rng.below(ng), k, k));
    }
    s.push_str("let w = 0; while w < 3 do begin let t = w * 2; print(\"~,\", t); w <- w + 1 end;\n");
    let _ = i;
    let ast = real::parse(&s).ok()?;
    Some((ast, s))
}

pub fn c11(ctx: &Ctx, rep: &mut Report) {
    // count-based corpus so that every process (round, build) sees the same programs
    let n = ctx.share(4_000, 80_000);
    let mut sources: Vec<(String, AST, String)> = Vec::new();
    if ctx.shard == 0 {
        for p in corpus("fml") {
            if let Ok(s) = std::fs::read_to_string(&p) {
                if let Ok(a) = real::parse(&s) {
                    sources.push((format!("corpus:{}", p.display()), a, s));
                }
            }
        }
    }
    {
        let mut js = 0usize;
        for (name, src) in stress_sources() {
            js += 1;
            if js % ctx.nshards != ctx.shard {
                continue;
            }
            // the long histories run for seconds in the debug build: thorough tier only
            if ctx.quick() && (name.starts_with("long-") || name == "constants-33000") {
                continue;
            }
            if let Ok(a) = real::parse(&src) {
                sources.push((format!("stress:{}", name), a, src));
            }
        }
    }
    for i in 0..n {
        let mut rng = ctx.rng("C11", i);
        if i % 2 == 0 {
            if let Some((a, s)) = big_program(&mut rng, i) {
                sources.push((format!("big#{}", i), a, s));
            }
        } else if let Some(c) = well_behaved_case(&mut rng, i) {
            sources.push((c.origin, c.ast, c.src));
        }
    }
    // bytecode that did not come from the compiler: the hand-assembled programs of C05 and three files in which two
    // different string constants carry the same label text (the loader accepts them; which definition a jump reaches
    // must not depend on the process). Executed five times here (every HashMap gets a fresh seed), digested for the
    // comparison across processes and builds.
    if ctx.shard == 4 % ctx.nshards {
        use super::super::bcfmt::{self, Const, Ins, Prog};
        let s = |t: &str| Const::Str(t.to_owned());
        let mut files: Vec<(String, Vec<u8>)> = super::vm::special_programs().into_iter().map(|(n, p, _, _)| (n.to_string(), bcfmt::write(&p))).collect();
        for (k, order) in [[1u16, 2], [2, 1], [1, 1]].iter().enumerate() {
            let dup = Prog {
                consts: vec![
                    s("main"),
                    s("L"),
                    s("L"),
                    s("A"),
                    s("B"),
                    s("end"),
                    s("M"),
                    s("M"),
                    Const::Method {
                        name: 0,
                        arity: 0,
                        locals: 0,
                        code: vec![
                            Ins::Goto(order[0]),
                            Ins::Label(1),
                            Ins::Print(3, 0),
                            Ins::Drop,
                            Ins::Goto(5),
                            Ins::Label(order[1].max(2)),
                            Ins::Print(4, 0),
                            Ins::Drop,
                            Ins::Goto(7),
                            Ins::Label(6),
                            Ins::Print(3, 0),
                            Ins::Drop,
                            Ins::Label(7),
                            Ins::Print(4, 0),
                            Ins::Drop,
                            Ins::Label(5),
                            Ins::Print(3, 0),
                        ],
                    },
                ],
                globals: vec![],
                entry: 8,
            };
            files.push((format!("duplicate-label-text-{}", k), bcfmt::write(&dup)));
        }
        for (name, bytes) in files.iter() {
            rep.evaluations += 1;
            let mut first: Option<(bool, String, bool)> = None;
            let mut stable = true;
            for _ in 0..5 {
                let this = match real::load(bytes) {
                    Ok(p) => {
                        let r = real::run_stepped(&p, 100_000);
                        (r.ok, r.out, r.capped)
                    }
                    Err(_) => (false, "<refused by the loader>".to_string(), false),
                };
                match &first {
                    None => first = Some(this),
                    Some(f) => {
                        if *f != this {
                            stable = false;
                            rep.violation(
                                "C11:bytecode-output-varies-in-process",
                                format!("{}: the same bytecode file ends differently when executed again in the same process: ok={} out={:?} vs ok={} out={:?}", name, f.0, cli::truncate(&f.1, 80), this.0, cli::truncate(&this.1, 80)),
                                json!({"check":"C11","bytecode_b64": super::super::b64(bytes), "name": name}),
                            );
                            break;
                        }
                    }
                }
            }
            if stable {
                rep.conclusive += 1;
                rep.bump("c11-source", "hand-assembled bytecode");
                if let Some((ok, out, _)) = &first {
                    rep.digests.push(format!("bytecode:{} => {:016x}:{}", name, hash_str(out), ok));
                }
            }
        }
    }
    let dir = ctx.scratch("c11");
    let cli_every = (sources.len() / if ctx.quick() { 6 } else { 60 }).max(1);
    for (k, (origin, ast, src)) in sources.iter().enumerate() {
        rep.evaluations += 1;
        // (a) five times in one process: fresh hash seeds for every HashMap
        let mut first: Option<(Vec<u8>, String, bool)> = None;
        let mut stable = true;
        for round in 0..5 {
            let bytes = match real::compile(ast).and_then(|p| real::serialize(&p)) {
                Ok(b) => b,
                Err(_) => {
                    stable = false;
                    break;
                }
            };
            let run = match real::load(&bytes) {
                Ok(p) => real::run_stepped(&p, 2_000_000),
                Err(_) => {
                    stable = false;
                    break;
                }
            };
            if run.capped {
                stable = false;
                break;
            }
            match &first {
                None => first = Some((bytes, run.out, run.ok)),
                Some((b0, o0, k0)) => {
                    if *b0 != bytes {
                        rep.violation("C11:bytes-vary-in-process", format!("{}: compilation {} in the same process produced different bytes\n{}", origin, round + 1, cli::truncate(src, 300)), json!({"check":"C11","src":src}));
                        break;
                    }
                    if *o0 != run.out || *k0 != run.ok {
                        rep.violation("C11:output-varies-in-process", format!("{}: execution {} in the same process printed something else", origin, round + 1), json!({"check":"C11","src":src}));
                        break;
                    }
                }
            }
        }
        let (bytes, out, ok) = match (stable, first) {
            (true, Some(x)) => x,
            _ => {
                // still part of the cross-process / cross-build comparison: a program must be
                // rejected (or not) in the same way everywhere
                rep.skip("not-compilable-or-not-terminating");
                rep.digests.push(format!("{}#{} => rejected-or-nonterminating", origin, hash_str(src) % 100000));
                continue;
            }
        };
        rep.conclusive += 1;
        if bytes.len() > 200 {
            rep.nontrivial(hash_str(src));
        }
        // (b)(c) digest for the cross-process / cross-build diff done by the driver
        rep.digests.push(format!("{}#{} => {:016x}:{:016x}:{}", origin, hash_str(src) % 100000, hash_bytes(&bytes), hash_str(&out), ok));
        // (d) real CLI under varied environment
        if k % cli_every == 0 {
            let f = dir.join(format!("d{}.fml", k));
            if std::fs::write(&f, src).is_err() {
                continue;
            }
            let json_ast = match crate::ASTSerializer::JSON.serialize(ast) {
                Ok(j) => j,
                Err(_) => continue,
            };
            let jf = dir.join(format!("d{}.json", k));
            let _ = std::fs::write(&jf, &json_ast);
            let exe = std::env::current_exe().unwrap();
            let rel = format!("d{}.fml", k);
            // `setarch -R` may be missing or forbidden in a sandbox: probe it with /bin/true first
            let setarch_ok = cli::run(cli::Spec::new(&["-R", "/bin/true"]).exe(std::path::Path::new("/usr/bin/setarch"))).success();
            let variants: Vec<(&str, cli::CliRun)> = vec![
                ("absolute path", cli::run(cli::Spec::new(&["run", f.to_str().unwrap()]))),
                ("relative path, other cwd", cli::run(cli::Spec::new(&["run", &rel]).cwd(&dir))),
                ("stdin", cli::run(cli::Spec::new(&["run"]).stdin(src.as_bytes()))),
                ("extra environment", cli::run(cli::Spec::new(&["run", f.to_str().unwrap()]).env("LANG", "tr_TR.UTF-8").env("TZ", "Pacific/Chatham").env("RUST_LOG", "trace").env("HOME", "/nonexistent").env("FOO", &"x".repeat(5000)))),
                ("unusable temp and home directories", cli::run(cli::Spec::new(&["run", f.to_str().unwrap()]).env("TMPDIR", "/nonexistent/tmp").env("TMP", "/proc").env("TEMP", "/dev/null").env("HOME", "/dev/null").env("XDG_CACHE_HOME", "/nonexistent").env("PWD", "/nonexistent"))),
                ("empty environment", cli::run(cli::Spec::new(&["-i", exe.to_str().unwrap(), "run", f.to_str().unwrap()]).exe(std::path::Path::new("/usr/bin/env")))),
                ("setarch -R (no ASLR)", cli::run(cli::Spec::new(&["-R", exe.to_str().unwrap(), "run", f.to_str().unwrap()]).exe(std::path::Path::new("/usr/bin/setarch")))),
            ];
            for (how, r) in variants.iter() {
                rep.evaluations += 1;
                if how.starts_with("setarch") && !setarch_ok {
                    rep.skip("setarch-unavailable");
                    continue;
                }
                if r.timed_out || r.spawn_error.is_some() {
                    rep.skip("cli-variant-unavailable");
                    continue;
                }
                rep.conclusive += 1;
                rep.count("cli_runs", 1);
                rep.bump("c11-cli-variant", how);
                if r.out_str() != out || r.success() != ok {
                    rep.violation("C11:cli-output-varies", format!("{}: `fml run` ({}) ends with {}; in-process: ok={} out={:?}", origin, how, r.describe(), ok, cli::truncate(&out, 200)), json!({"check":"C11","src":src}));
                }
            }
            let compiles: Vec<(&str, cli::CliRun)> = vec![
                ("compile file", cli::run(cli::Spec::new(&["compile", jf.to_str().unwrap()]))),
                ("compile stdin", cli::run(cli::Spec::new(&["compile", "--input-format", "json"]).stdin(json_ast.as_bytes()))),
                ("compile, extra environment", cli::run(cli::Spec::new(&["compile", jf.to_str().unwrap()]).env("LC_ALL", "C").env("COLUMNS", "3"))),
            ];
            for (how, r) in compiles.iter() {
                rep.evaluations += 1;
                if r.timed_out || r.spawn_error.is_some() {
                    rep.skip("cli-variant-unavailable");
                    continue;
                }
                if !r.success() {
                    rep.skip("compile-refuses (C06 territory)");
                    continue;
                }
                rep.conclusive += 1;
                rep.count("cli_runs", 1);
                rep.bump("c11-cli-variant", how);
                if r.stdout != bytes {
                    rep.violation("C11:cli-bytes-vary", format!("{}: `fml {}` produced different bytes than the in-process compilation", origin, how), json!({"check":"C11","src":src}));
                }
            }
            let _ = std::fs::remove_file(&f);
            let _ = std::fs::remove_file(&jf);
        }
        if rep.samples.len() < 2 && origin.starts_with("big") && src.len() < 6000 {
            rep.sample(json!({"origin": origin, "source_bytes": src.len(), "bytecode_bytes": bytes.len(), "digest": format!("{:016x}:{:016x}", hash_bytes(&bytes), hash_str(&out)), "source_head": cli::truncate(src, 500)}));
        }
    }
}

// ---------------------------------------------------------------------------------------------
// helpers for the sanitizer runs of C10 (thorough tier)

/// `fml verif-harness C10dump --work DIR`: writes a corpus of hostile and fault-injected programs
/// as DIR/vg-*.fml for the driver to run under valgrind memcheck.
pub fn c10_dump(ctx: &Ctx, rep: &mut Report) {
    let mut n = 0;
    for (name, src, _) in hostile_shapes(true) {
        // keep valgrind runs short: skip the deliberately huge ones
        if name.starts_with("recursion") || name.starts_with("method-recursion") || name.contains("big-heap") {
            continue;
        }
        // native recursion as deep as the source nests is a recorded finding, probed natively (valgrind's own stack is
        // smaller still); the remaining giants would take valgrind minutes each
        if name.starts_with("deep-source-")
            || name.starts_with("deep-value-")
            || name.starts_with("capacity-")
            || name.starts_with("long-run-")
            || name.starts_with("many-prints-")
            || name.starts_with("huge-line-")
            || name.contains("recursion-depth-1000000")
            || name.contains("recursion-depth-100000")
            || name.starts_with("fault-after-deep-")
        {
            continue;
        }
        if std::fs::write(ctx.work.join(format!("vg-{:03}-{}.fml", n, name)), src).is_ok() {
            n += 1;
        }
    }
    for i in 0..40u64 {
        let mut rng = ctx.rng("C10dump", i);
        let mut ast = gen::well_behaved(&mut rng, gen::GenOpts::default());
        let pos = gen::fault_positions(&ast);
        if !pos.is_empty() && i % 2 == 0 {
            let (l, p) = pos[rng.below(pos.len())];
            gen::add_fault_helpers(&mut ast);
            gen::insert_at(&mut ast, l, p, gen::fault_statement(gen::FAULT_CLASSES[(i as usize / 2) % gen::FAULT_CLASSES.len()], i as usize));
        }
        if let Ok(src) = printer::to_source(&ast) {
            let o = refsem::run(&ast, default_limits());
            if o.res == Res::Fuel {
                continue;
            }
            if std::fs::write(ctx.work.join(format!("vg-{:03}-gen{}.fml", n, i)), src).is_ok() {
                n += 1;
            }
        }
    }
    rep.evaluations = n;
    rep.conclusive = n;
}

/// `fml verif-harness miri-smoke`: a small in-process workload meant to run under Miri
/// (no subprocesses): parse, compile, serialize, load, interpret, AST (de)serialisation.
pub fn miri_smoke(_ctx: &Ctx, rep: &mut Report) {
    let programs = [
        "let a = array(2, begin 1 end); let o = object extends a begin let x = 1; function m(y) -> this.x + y; end; print(\"~ ~ ~\\n\", a, o.m(2), o[1]);\n",
        "function f(n) -> if n <= 0 then 0 else n + f(n - 1); let i = 0; while i < 3 do begin print(\"~,\", f(i)); i <- i + 1 end; print(\"\\n\");\n",
        "let s = object begin let t = \"x\"; end;\n",
        "print(\"~\\n\", 1 / 0);\n",
    ];
    for src in programs.iter() {
        rep.evaluations += 1;
        let ast = match real::parse(src) {
            Ok(a) => a,
            Err(_) => {
                rep.count("rejected_by_parser", 1);
                continue;
            }
        };
        // AST (de)serialisation is left out: Miri stops in the pinned dependency itoa-0.4.7
        // (`mem::uninitialized::<[u8; 40]>()`, reached from serde_json's integer formatting) before
        // any FML code is judged; see DESIGN.md §10.
        let out = refsem::run(&ast, default_limits());
        let p = real::pipeline_from_ast(&ast, 100_000, true);
        if let (true, Some(run)) = (out.judged(), p.run.as_ref()) {
            rep.conclusive += 1;
            if run.out != out.out || run.ok == out.failed() {
                rep.violation("C10:miri-behaviour", format!("under Miri: expected {:?}, observed {:?}", out.out, run.out), json!({"check":"C10","src":src}));
            }
        }
        if let Some(b) = &p.bytes {
            if let Ok(loaded) = real::load(b) {
                let _ = real::disassemble(&loaded);
            }
        }
    }
}
