//! C01 (run output = source semantics), C12 (scoping), C14 (object model).

use crate::parser::{Identifier, AST};
use serde_json::json;

use super::super::gen;
use super::super::printer;
use super::super::refsem::Res;
use super::super::rng::Rng;
use super::super::{real, Ctx, Report};
use super::common::*;
use super::judge::*;

fn replay_src(ctx: &Ctx) -> Option<String> {
    ctx.replay.as_ref().and_then(|r| r.get("src")).and_then(|s| s.as_str()).map(|s| s.to_owned())
}

fn run_replay(ctx: &Ctx, rep: &mut Report, prop: &str) -> bool {
    if let Some(src) = replay_src(ctx) {
        match real::parse(&src) {
            Ok(ast) => {
                let mut rng = ctx.rng("replay", 0);
                let mut o = JudgeOpts::full();
                o.big = true;
                let j = judge(rep, prop, "replay", &ast, &src, &mut rng, o);
                if ctx.replay.as_ref().and_then(|r| r.get("via")).and_then(|v| v.as_str()) == Some("cli") {
                    let dir = ctx.scratch("replay");
                    // 0: file and stdin; 1: file, terminal, staged tools
                    judge_cli(rep, prop, "replay", &src, &j.outcome, &dir, 0);
                    judge_cli(rep, prop, "replay", &src, &j.outcome, &dir, 1);
                }
            }
            Err(e) => {
                rep.evaluations += 1;
                rep.violation(&format!("{}:parse-rejects", prop), format!("replay source is rejected by the parser: {}", e), json!({"check":prop,"src":src}));
            }
        }
        return true;
    }
    ctx.replay.is_some()
}

/// function names a standard library might claim
const BUILTIN_LIKE_NAMES: [&str; 44] = [
    "min", "max", "abs", "len", "length", "size", "str", "int", "bool", "input", "read", "write", "exit", "halt", "assert", "panic", "error", "random", "rand", "time", "clock", "typeof", "range", "println",
    "printf", "format", "sum", "swap", "id", "not", "neg", "pow", "sqrt", "array_of", "new", "copy", "equals", "concat", "push", "pop", "get", "set", "add", "eq",
];

/// deterministic cases shared by C01: matrix, stress shapes, in-repo corpus; `third` = one in how
/// many of the three-way combinations (construct in wrapper in context) to take (1 = all)
fn deterministic_sources(third: u64, seed: u64) -> Vec<(String, String)> {
    let mut v = Vec::new();
    let mut k3 = 0u64;
    for ci in 0..gen::MATRIX_CONSTRUCTS.len() {
        for wi in 0..gen::MATRIX_WRAPPERS.len() {
            for xi in 0..gen::MATRIX_CONTEXTS.len() {
                k3 += 1;
                if (k3.wrapping_mul(0x9E37_79B9_7F4A_7C15).wrapping_add(seed) >> 24) % third == 0 {
                    v.push(gen::matrix3_program(ci, wi, xi));
                }
            }
        }
    }
    for ci in 0..gen::MATRIX_CONSTRUCTS.len() {
        for xi in 0..gen::MATRIX_CONTEXTS.len() {
            v.push(gen::matrix_program(ci, xi));
        }
    }
    for (n, s) in stress_sources() {
        v.push((format!("stress:{}", n), s));
    }
    for (a, b) in super::lang2::COLLIDING_NAMES.iter() {
        v.push((format!("colliding-names:{}/{}", a, b), super::lang2::collision_program(a, b)));
    }
    // user definitions whose names a built-in might want: functions (called before and after their
    // definition, 0 to 3 parameters), methods and variables - the program's own definition is the only one
    let mut k4 = 0u64;
    for w in BUILTIN_LIKE_NAMES.iter().chain(super::lang2::EXTRA_METHOD_NAMES.iter()) {
        if ["this", "print"].contains(w) {
            continue;
        }
        for arity in 0..4usize {
            k4 += 1;
            if third > 1 && (k4.wrapping_mul(0x9E37_79B9_7F4A_7C15).wrapping_add(seed) >> 24) % 2 != 0 {
                continue;
            }
            let params: Vec<String> = (0..arity).map(|a| format!("p{}", a)).collect();
            let args: Vec<String> = (0..arity).map(|a| (a * 4 + 3).to_string()).collect();
            let body = if arity == 0 { "4100".to_string() } else { format!("4100 + {}", params.iter().enumerate().map(|(i, p)| format!("{} * {}", p, i + 2)).collect::<Vec<_>>().join(" + ")) };
            v.push((
                format!("builtin-like:{}/{}", w, arity),
                format!(
                    "print(\"before ~\\n\", {w}({a}));\nfunction caller() -> {w}({a});\nprint(\"~\\n\", caller());\nfunction {w}({p}) -> {b};\nprint(\"after ~ ~\\n\", {w}({a}), caller());\nlet o = object begin function {w}({p}) -> 1 + {b}; end;\nprint(\"method ~\\n\", o.{w}({a}));\nlet {w} = 77;\nprint(\"variable ~ ~\\n\", {w}, {w}({a}));\n",
                    w = w,
                    a = args.join(", "),
                    p = params.join(", "),
                    b = body
                ),
            ));
        }
    }
    for p in corpus("fml") {
        if let Ok(s) = std::fs::read_to_string(&p) {
            v.push((format!("corpus:{}", p.display()), s));
        }
    }
    v
}

/// with probability, inject one fault of a random class into a well-behaved program
fn maybe_fault(ast: &mut AST, rng: &mut Rng, index: u64) -> Option<&'static str> {
    if index % 6 != 5 {
        return None;
    }
    let class = gen::FAULT_CLASSES[rng.below(gen::FAULT_CLASSES.len())];
    let pos = gen::fault_positions(ast);
    if pos.is_empty() {
        return None;
    }
    let (l, p) = pos[rng.below(pos.len())];
    gen::add_fault_helpers(ast);
    gen::insert_at(ast, l, p, gen::fault_statement(class, index as usize));
    Some(class)
}

pub fn c01(ctx: &Ctx, rep: &mut Report) {
    if run_replay(ctx, rep, "C01") {
        return;
    }
    let dir = ctx.scratch("c01");
    let mut k = 0u64;
    for (name, src) in deterministic_sources(if ctx.quick() { 6 } else { 1 }, ctx.seed) {
        k += 1;
        if !ctx.mine(k) {
            continue;
        }
        match real::parse(&src) {
            Ok(ast) => {
                let mut rng = ctx.rng("C01det", k);
                let mut o = JudgeOpts::full();
                o.big = true;
                let j = judge(rep, "C01", &name, &ast, &src, &mut rng, o);
                if k % 16 == 0 {
                    judge_cli(rep, "C01", &name, &src, &j.outcome, &dir, k);
                }
                rep.bump("c01-source", if name.starts_with("stress") { "stress" } else if name.starts_with("corpus") { "corpus" } else if name.matches('@').count() == 2 { "three-way matrix" } else if name.starts_with("builtin-like") { "built-in-like names" } else { "matrix" });
            }
            Err(e) => {
                if name.starts_with("corpus") {
                    rep.skip("corpus-file-does-not-parse");
                } else {
                    rep.evaluations += 1;
                    rep.violation("C01:parse-rejects", format!("{}: a program of the documented language is rejected by the parser: {}", name, e), json!({"check":"C01","src":src}));
                }
            }
        }
    }
    let n = ctx.share(100_000, 5_000_000);
    let cli_every = if ctx.quick() { (n / 20).max(1) } else { (n / 1200).max(1) };
    for i in 0..n {
        if i % 128 == 0 && ctx.out_of_time() && i >= n / 20 {
            rep.notes.push(format!("time budget reached after {} of {} random cases", i, n));
            break;
        }
        let mut rng = ctx.rng("C01", i);
        let mut case = match well_behaved_case(&mut rng, i) {
            Some(c) => c,
            None => {
                rep.skip("unprintable");
                continue;
            }
        };
        if let Some(class) = maybe_fault(&mut case.ast, &mut rng, i) {
            match printer::to_source(&case.ast) {
                Ok(s) => case.src = s,
                Err(_) => continue,
            }
            rep.bump("c01-injected-fault", class);
        }
        // the subject gets the program the way a user supplies it: as source text
        let ast = match real::parse(&case.src) {
            Ok(a) => a,
            Err(e) => {
                rep.evaluations += 1;
                rep.violation("C01:parse-rejects", format!("{}: generated program is rejected by the parser: {}\n{}", case.origin, e, case.src), json!({"check":"C01","src":case.src}));
                continue;
            }
        };
        if ast != case.ast {
            rep.evaluations += 1;
            rep.violation("C01:parse-differs", format!("{}: the parser reads a different program than the one printed (C07 territory)\n{}", case.origin, case.src), json!({"check":"C01","src":case.src}));
            continue;
        }
        let o = match i % 4 {
            0 => JudgeOpts::full(),
            1 => JudgeOpts { lockstep: true, consensus: false, native: false, big: false },
            _ => JudgeOpts::fast(),
        };
        let j = judge(rep, "C01", &case.origin, &ast, &case.src, &mut rng, o);
        rep.bump("c01-source", "generated");
        if i % cli_every == 0 && j.judged {
            judge_cli(rep, "C01", &case.origin, &case.src, &j.outcome, &dir, i);
        }
        if rep.samples.len() < 3 && j.judged && case.src.len() < 900 && j.outcome.out.len() > 10 {
            rep.sample(json!({"src": case.src, "expected_stdout": j.outcome.out, "expected_success": !j.outcome.failed()}));
        }
    }
}

// ---------------------------------------------------------------------------------------------
// C12: bounded-exhaustive scoping programs

#[derive(Clone, Debug)]
enum St {
    /// `let v = v + 100`: the initializer reads the outer v
    LetInc(u8),
    Let(u8),
    Assign(u8),
    Read(u8),
    CallFr,
    CallFw,
    CallFd,
    CallMr,
    CallMw,
    Block(Vec<St>),
    IfTaken(Box<St>),
    IfNot(Box<St>),
    While0(Box<St>),
    While2(Box<St>),
}

const LEAVES: u64 = 13;

struct Counts {
    t: Vec<u64>,
    s: Vec<u64>,
}

fn counts(n: usize) -> Counts {
    let mut t = vec![0u64; n + 1];
    let mut s = vec![0u64; n + 1];
    s[0] = 1;
    for k in 1..=n {
        t[k] = if k == 1 { LEAVES } else { s[k - 1] + 4 * t[k - 1] };
        let mut acc = 0u64;
        for j in 1..=k {
            acc += t[j] * s[k - j];
        }
        s[k] = acc;
    }
    Counts { t, s }
}

fn unrank_tree(c: &Counts, k: usize, mut i: u64) -> St {
    if k == 1 {
        return match i {
            0 => St::Let(0),
            1 => St::Let(1),
            2 => St::Assign(0),
            3 => St::Assign(1),
            4 => St::Read(0),
            5 => St::Read(1),
            6 => St::CallFr,
            7 => St::CallFw,
            8 => St::CallFd,
            9 => St::CallMr,
            10 => St::CallMw,
            11 => St::LetInc(0),
            _ => St::LetInc(1),
        };
    }
    if i < c.s[k - 1] {
        return St::Block(unrank_seq(c, k - 1, i));
    }
    i -= c.s[k - 1];
    let which = i / c.t[k - 1];
    let inner = Box::new(unrank_tree(c, k - 1, i % c.t[k - 1]));
    match which {
        0 => St::IfTaken(inner),
        1 => St::IfNot(inner),
        2 => St::While0(inner),
        _ => St::While2(inner),
    }
}

fn unrank_seq(c: &Counts, n: usize, mut i: u64) -> Vec<St> {
    if n == 0 {
        return vec![];
    }
    for k in 1..=n {
        let block = c.t[k] * c.s[n - k];
        if i < block {
            let first = unrank_tree(c, k, i / c.s[n - k]);
            let mut rest = unrank_seq(c, n - k, i % c.s[n - k]);
            let mut v = vec![first];
            v.append(&mut rest);
            return v;
        }
        i -= block;
    }
    unreachable!()
}

fn idn(s: &str) -> Identifier {
    Identifier::from(s)
}

struct Emit {
    k: i32,
    tag: usize,
}

impl Emit {
    fn var(v: u8) -> &'static str {
        if v == 0 {
            "x"
        } else {
            "y"
        }
    }
    fn stmt(&mut self, s: &St) -> AST {
        match s {
            St::Let(v) => {
                self.k += 1;
                AST::variable(idn(Self::var(*v)), AST::Integer(self.k))
            }
            St::LetInc(v) => AST::variable(
                idn(Self::var(*v)),
                AST::call_method(AST::access_variable(idn(Self::var(*v))), idn("+"), vec![AST::Integer(100)]),
            ),
            St::Assign(v) => {
                self.k += 1;
                AST::assign_variable(idn(Self::var(*v)), AST::Integer(self.k))
            }
            St::Read(v) => {
                self.tag += 1;
                AST::print(format!("r{}{}=~;", self.tag, Self::var(*v)), vec![AST::access_variable(idn(Self::var(*v)))])
            }
            St::CallFr => AST::call_function(idn("fr"), vec![]),
            St::CallFw => AST::call_function(idn("fw"), vec![]),
            St::CallFd => AST::call_function(idn("fd"), vec![]),
            St::CallMr => AST::call_method(AST::access_variable(idn("ob")), idn("mr"), vec![]),
            St::CallMw => AST::call_method(AST::access_variable(idn("ob")), idn("mw"), vec![AST::Integer(7)]),
            St::Block(ss) => AST::block(ss.iter().map(|s| self.stmt(s)).collect()),
            St::IfTaken(s) => AST::conditional(AST::Boolean(true), self.stmt(s), AST::Null),
            St::IfNot(s) => AST::conditional(AST::Boolean(false), self.stmt(s), AST::Null),
            St::While0(s) => AST::loop_de_loop(AST::Boolean(false), self.stmt(s)),
            St::While2(s) => {
                // while ((cc <- cc + 1) % 3) != 0 do S -- exactly two iterations each time, and
                // no scope of its own; cc is a global of the prelude
                let inc = AST::assign_variable(idn("cc"), AST::call_method(AST::access_variable(idn("cc")), idn("+"), vec![AST::Integer(1)]));
                let cond = AST::call_method(AST::call_method(inc, idn("%"), vec![AST::Integer(3)]), idn("!="), vec![AST::Integer(0)]);
                let body = self.stmt(s);
                AST::loop_de_loop(cond, body)
            }
        }
    }
}

fn c12_prelude(stmts: &mut Vec<AST>) {
    // fr reads global x, fw writes global x, fd declares its own x and y, ob.mr / ob.mw likewise
    let rd = |tag: &str| AST::print(format!("{}=~;", tag), vec![AST::access_variable(idn("x"))]);
    stmts.push(AST::variable(idn("cc"), AST::Integer(0)));
    stmts.push(AST::function(idn("fr"), vec![], rd("fr")));
    stmts.push(AST::function(idn("fw"), vec![], AST::assign_variable(idn("x"), AST::Integer(-5))));
    stmts.push(AST::function(
        idn("fd"),
        vec![],
        AST::block(vec![
            AST::variable(idn("x"), AST::Integer(-6)),
            AST::variable(idn("y"), AST::Integer(-7)),
            AST::print("fd=~,~;".into(), vec![AST::access_variable(idn("x")), AST::access_variable(idn("y"))]),
        ]),
    ));
}

fn c12_object() -> AST {
    AST::variable(
        idn("ob"),
        AST::object(
            AST::Null,
            vec![
                AST::function(idn("mr"), vec![], AST::print("mr=~;".into(), vec![AST::access_variable(idn("y"))])),
                AST::function(
                    idn("mw"),
                    vec![idn("x")],
                    AST::block(vec![
                        AST::assign_variable(idn("x"), AST::Integer(-8)),
                        AST::assign_variable(idn("y"), AST::Integer(-9)),
                        AST::print("mw=~;".into(), vec![AST::access_variable(idn("x"))]),
                    ]),
                ),
            ],
        ),
    )
}

/// Build the program for sequence `seq` placed in context `cx`:
/// 0 top level, 1 block at top level, 2 function body, 3 method body, 4 method of an object
/// literal inside a top-level block.
fn c12_program(seq: &[St], cx: u8) -> AST {
    let mut top = Vec::new();
    c12_prelude(&mut top);
    let mut e = Emit { k: 0, tag: 0 };
    let body: Vec<AST> = seq.iter().map(|s| e.stmt(s)).collect();
    match cx {
        0 => {
            top.push(c12_object());
            top.extend(body);
            // closing probes of whatever is global now happen through fr / mr
            top.push(AST::call_function(idn("fr"), vec![]));
        }
        1 => {
            top.push(c12_object());
            top.push(AST::variable(idn("x"), AST::Integer(100)));
            top.push(AST::block(body));
            top.push(AST::print("end x=~;".into(), vec![AST::access_variable(idn("x"))]));
        }
        2 => {
            top.push(c12_object());
            top.push(AST::variable(idn("x"), AST::Integer(100)));
            top.push(AST::variable(idn("y"), AST::Integer(200)));
            top.push(AST::function(idn("run"), vec![idn("y")], AST::block(body)));
            top.push(AST::call_function(idn("run"), vec![AST::Integer(300)]));
            top.push(AST::call_function(idn("run"), vec![AST::Integer(301)]));
            top.push(AST::print("end x=~ y=~;".into(), vec![AST::access_variable(idn("x")), AST::access_variable(idn("y"))]));
        }
        4 => {
            // a method of an object literal written inside a top-level block, whose body mentions
            // names that are also block-locals of that block
            top.push(c12_object());
            top.push(AST::variable(idn("x"), AST::Integer(100)));
            top.push(AST::variable(idn("y"), AST::Integer(200)));
            top.push(AST::block(vec![
                AST::variable(idn("x"), AST::Integer(50)),
                AST::variable(idn("pad"), AST::Integer(51)),
                AST::variable(idn("h2"), AST::object(AST::Null, vec![AST::function(idn("run"), vec![idn("y")], AST::block(body))])),
                AST::call_method(AST::access_variable(idn("h2")), idn("run"), vec![AST::Integer(7)]),
                AST::print("blk x=~ pad=~;".into(), vec![AST::access_variable(idn("x")), AST::access_variable(idn("pad"))]),
            ]));
            top.push(AST::print("end x=~ y=~;".into(), vec![AST::access_variable(idn("x")), AST::access_variable(idn("y"))]));
        }
        _ => {
            top.push(c12_object());
            top.push(AST::variable(idn("x"), AST::Integer(100)));
            top.push(AST::variable(idn("y"), AST::Integer(200)));
            top.push(AST::variable(
                idn("host"),
                AST::object(AST::Null, vec![AST::function(idn("run"), vec![idn("x")], AST::block(body))]),
            ));
            top.push(AST::block(vec![
                AST::variable(idn("y"), AST::Integer(400)),
                AST::call_method(AST::access_variable(idn("host")), idn("run"), vec![AST::Integer(500)]),
                AST::print("blk y=~;".into(), vec![AST::access_variable(idn("y"))]),
            ]));
            top.push(AST::print("end x=~ y=~;".into(), vec![AST::access_variable(idn("x")), AST::access_variable(idn("y"))]));
        }
    }
    AST::top(top)
}

/// Programs in which FML's compile order (else-branch before then-branch, loop body before
/// condition) lets a later `let` capture an earlier use. Known finding, see DESIGN.md §6 D8.
const HAZARD_PROBES: [(&str, &str); 4] = [
    ("if", "let y = 0;\nbegin\n  if true then print(\"then y=~;\", y) else let y = 1;\n  0\nend;\n"),
    ("if", "let y = 0;\nfunction f(c) -> begin if c then print(\"f then y=~;\", y) else let y = 1; 0 end;\nf(true);\n"),
    ("loop", "let y = 0;\nlet c = 0;\nbegin\n  while (c <- c + 1) < 3 & y == 0 do let y = 5;\n  print(\"after y=~;\", y)\nend;\n"),
    ("loop", "let y = 0;\nlet o = object begin function m(c) -> begin while (c <- c + 1) < 3 & y == 0 do let y = 5; y end; end;\nprint(\"m=~;\", o.m(0));\n"),
];

/// The README's own scoping examples (and close variants), judged by the reference like any program.
const README_SCOPE_PROBES: [&str; 8] = [
    "let x = 1;\nlet y = 1;\nbegin\n  let y = 1;\n  let z = 1;\n  x <- 2;\n  y <- 2;\n  z <- 2;\n  print(\"~ ~ ~\\n\", x, y, z)\nend;\nprint(\"~\\n\", x);\nprint(\"~\\n\", y);\n",
    "if let x = true then let y = true else let z = true;\nprint(\"~\\n\", x);\nprint(\"~\\n\", y);\n",
    "array(let size = 7, null);\nprint(\"size: ~\\n\", size);\n",
    "let a = array(let size = 3, begin size end);\nprint(\"~ ~\\n\", size, a);\nsize <- 9;\nprint(\"~\\n\", size);\n",
    "let i = 1;\nlet a = array(4, begin let x = i; i <- i + 1; x end);\nprint(\"~ ~\\n\", a, i);\n",
    "function f() -> begin let c = array(let m = 2, begin let q = m; q end); m + c[1] end;\nprint(\"~\\n\", f());\nbegin let d = array(let w = 2, begin w * 3 end); print(\"~ ~\\n\", w, d) end;\n",
    "let a = let b = 2;\nprint(\"~ ~\\n\", a, b);\nlet c = (let d = 3) + d;\nprint(\"~ ~\\n\", c, d);\n",
    "let x = 1;\nwhile (let t = x) < 3 do x <- x + 1;\nprint(\"~ ~\\n\", x, t);\nlet o = object begin let f = (let viaField = 5); end;\nprint(\"~ ~\\n\", viaField, o.f);\n",
];

/// What a body must *not* see (and the few things it must): a name that exists close by — as a field
/// of the receiver or of the first argument, as a local of the caller or of the block that created
/// the object, as a parameter of another body — is still unknown.
const VISIBILITY_PROBES: [&str; 20] = [
    "function point(a, b) -> object begin let x = a; let y = b; end;\nlet x = 5;\nlet p = point(x, x + 1);\nx <- p.x + p.y;\nprint(\"~ ~\\n\", x, p);\nlet holder = object begin let later = 1; function later() -> 2; end;\nlet later = 3;\nfunction later() -> 4;\nbegin let y = 9; print(\"~ ~ ~ ~ ~ ~\\n\", y, p.y, later, later(), holder.later, holder.later()) end;\nfunction uses(y) -> y + p.y;\nprint(\"~\\n\", uses(100));\n",
    "let o = object begin let count = 10; function peek() -> count; end;\nprint(\"a\\n\");\no.peek();\nprint(\"b\\n\");\n",
    "let o = object begin let count = 10; function bump() -> count <- count + 1; end;\nprint(\"a\\n\");\no.bump();\nprint(\"b ~\\n\", o);\n",
    "let o = object begin let count = 10; function set(v) -> count <- v; end;\nprint(\"a\\n\");\no.set(3);\nprint(\"b ~\\n\", o);\n",
    "function f(rec) -> count;\nlet r = object begin let count = 1; end;\nprint(\"a\\n\");\nf(r);\nprint(\"b\\n\");\n",
    "function f(rec, v) -> count <- v;\nlet r = object begin let count = 1; end;\nprint(\"a\\n\");\nf(r, 2);\nprint(\"b ~\\n\", r);\n",
    "begin\n  let first = object begin let count = 1; end;\n  print(\"a\\n\");\n  count;\n  print(\"b\\n\")\nend;\n",
    "begin\n  let first = object begin let count = 1; end;\n  print(\"a\\n\");\n  count <- 2;\n  print(\"b ~\\n\", first)\nend;\n",
    "function g() -> secret;\nbegin let secret = 1; print(\"a\\n\"); g(); print(\"b\\n\") end;\n",
    "function setit() -> loc <- 2;\nbegin let loc = 1; print(\"a\\n\"); setit(); print(\"~\\n\", loc) end;\n",
    "begin\n  let hidden = 5;\n  let o = object begin function m() -> hidden; end;\n  print(\"a\\n\");\n  o.m();\n  print(\"b\\n\")\nend;\n",
    "function inner() -> loc;\nfunction outer() -> begin let loc = 1; inner() end;\nprint(\"a\\n\");\nouter();\nprint(\"b\\n\");\n",
    "function f(p) -> p;\nf(1);\nprint(\"a\\n\");\np;\nprint(\"b\\n\");\n",
    "let o = object begin function a(x) -> this.b(); function b() -> x; end;\nprint(\"a\\n\");\no.a(1);\nprint(\"b\\n\");\n",
    "begin let v = 3; let o = object begin let f = v + 1; end; print(\"~\\n\", o.f) end;\n",
    "let o = object begin let fld = 1; end;\nprint(\"a\\n\");\nfld;\nprint(\"b\\n\");\n",
    "let g = 1;\nfunction f() -> g <- g + 1;\nf();\nprint(\"~\\n\", g);\nlet o = object begin function m() -> g <- g * 10; end;\no.m();\nprint(\"~\\n\", g);\n",
    "begin let notglobal = 1 end;\nfunction f() -> notglobal;\nprint(\"a\\n\");\nf();\nprint(\"b\\n\");\n",
    "if true then let viaIf = 1 else 2;\nfunction f() -> viaIf;\nprint(\"~\\n\", f());\n",
    "let base = object begin let count = 7; function read() -> this.count; end;\nlet child = object extends base begin function peek() -> count; end;\nprint(\"~\\n\", child.read());\nprint(\"a\\n\");\nchild.peek();\nprint(\"b\\n\");\n",
];

/// A `let` in a branch that is not taken (or a loop that is not entered) still introduces its variable into the
/// enclosing scope - branches and loops open none. The reference does not judge *reads* of such a variable, but an
/// assignment defines it, and both it and later reads concern the frame's own variable, never an outer one of the
/// same name. Expected outputs are written down here (source, stdout).
const UNSET_VARIABLE_PROBES: [(&str, &str); 8] = [
    ("let x = 10;\nfunction f() -> begin if false then let x = 1; x <- 2; x end;\nprint(\"~ ~\\n\", f(), x);\n", "2 10\n"),
    ("let y = 10;\nbegin if false then let y = 1; y <- 3; print(\"~\\n\", y) end;\nprint(\"~\\n\", y);\n", "3\n10\n"),
    ("let v = 10;\nfunction g() -> begin let w = 0; while w > 5 do let v = 7; v <- 4; v end;\nprint(\"~ ~\\n\", g(), v);\n", "4 10\n"),
    ("let k = 10;\nlet o = object begin function m() -> begin if null then let k = 1; k <- 5; k + 1 end; end;\nprint(\"~ ~\\n\", o.m(), k);\n", "6 10\n"),
    ("let q = 10;\nfunction h(c) -> begin if c then 0 else let q = 1; q <- q + 1; q end;\nprint(\"~ ~\\n\", h(false), q);\n", "2 10\n"),
    ("let z = 10;\nfunction p() -> begin if false then let z = 1 else 0; z <- 8; begin z <- z + 1 end; z end;\nprint(\"~ ~\\n\", p(), z);\n", "9 10\n"),
    ("let a = 10;\nfunction r(n) -> begin if n > 0 then let a = n; a <- a + 100; a end;\nprint(\"~ ~\\n\", r(5), a);\n", "105 10\n"),
    ("let t = 10;\nfunction s() -> begin if false then let t = 1; begin let t = 2; t <- t + 1 end; t <- 6; t end;\nprint(\"~ ~\\n\", s(), t);\n", "6 10\n"),
];

fn c12_unset_probes(rep: &mut Report) {
    for (k, (src, want)) in UNSET_VARIABLE_PROBES.iter().enumerate() {
        rep.evaluations += 1;
        let p = real::pipeline_from_source(src, 100_000);
        rep.conclusive += 1;
        let (out, ok, err) = match (&p.stage_error, &p.run) {
            (Some((st, e)), _) => (String::new(), false, format!("{}: {}", st, e)),
            (None, Some(r)) => (r.out.clone(), r.ok, r.err.clone()),
            _ => (String::new(), false, "no run".to_string()),
        };
        rep.bump("c12-size", "unset-variable probes");
        if !ok || out != *want {
            rep.violation(
                "C12:unset-variable",
                format!("probe {}: a `let` in a branch that is not taken still introduces its variable into the enclosing scope: expected success with {:?}, observed ok={} out={:?} err={}\n{}", k, want, ok, out, err, src),
                json!({"check":"C12","unset_src":src,"want":want}),
            );
        }
    }
}

fn c12_hazard_probes(rep: &mut Report) {
    for (kind, src) in HAZARD_PROBES.iter() {
        rep.evaluations += 1;
        let ast = match real::parse(src) {
            Ok(a) => a,
            Err(e) => {
                rep.inconsistency(format!("hazard probe does not parse: {}", e));
                continue;
            }
        };
        let out = super::super::refsem::run(&ast, default_limits());
        if out.order_hazard.is_none() || !out.judged() {
            rep.inconsistency(format!("hazard probe not recognised as a compile-order hazard: {:?} {:?}", out.order_hazard, out.res));
            continue;
        }
        rep.conclusive += 1;
        let p = real::pipeline_from_ast(&ast, cap_for(&out), true);
        let (r_out, r_ok) = match (&p.stage_error, &p.run) {
            (Some(_), _) => (String::new(), false),
            (None, Some(r)) => (r.out.clone(), r.ok),
            _ => unreachable!(),
        };
        if r_ok != !out.failed() || r_out != out.out {
            rep.violation(
                &format!("C12:compile-order-hazard:{}", kind),
                format!("a use that textually precedes a `let` of the same name is captured by it: expected ok={} out={:?}, observed ok={} out={:?}\n{}", !out.failed(), out.out, r_ok, r_out, src),
                json!({"check":"C12","src":src,"hazard":kind}),
            );
        }
    }
}

pub fn c12(ctx: &Ctx, rep: &mut Report) {
    if let Some(r) = &ctx.replay {
        if r.get("hazard").is_some() {
            c12_hazard_probes(rep);
            return;
        }
        if r.get("unset_src").is_some() {
            c12_unset_probes(rep);
            return;
        }
    }
    if run_replay(ctx, rep, "C12") {
        return;
    }
    if ctx.shard == 0 {
        c12_hazard_probes(rep);
        c12_unset_probes(rep);
        for (k, src) in README_SCOPE_PROBES.iter().chain(VISIBILITY_PROBES.iter()).enumerate() {
            match real::parse(src) {
                Ok(ast) => {
                    let mut rng = ctx.rng("C12readme", k as u64);
                    let j = judge(rep, "C12", &format!("readme-scope#{}", k), &ast, src, &mut rng, JudgeOpts::full());
                    if !j.judged {
                        rep.inconsistency(format!("README scoping probe {} is not judged by the reference: {:?}", k, j.outcome.res));
                    }
                    rep.bump("c12-size", "readme-probes");
                }
                Err(e) => rep.inconsistency(format!("README scoping probe {} does not parse: {}", k, e)),
            }
        }
        // 65 540 blocks in one frame
        for (name, src) in scope_capacity_sources() {
            if let Ok(ast) = real::parse(&src) {
                let mut rng = ctx.rng("C12cap", 0);
                let mut o = JudgeOpts::fast();
                o.big = true;
                let j = judge(rep, "C12", &format!("capacity:{}", name), &ast, &src, &mut rng, o);
                if !j.judged {
                    rep.inconsistency(format!("scope capacity shape {} is not judged by the reference: {:?}", name, j.outcome.res));
                }
                rep.bump("c12-size", "65 540 blocks in one frame");
            }
        }
        // the fixed stress shapes that are about scopes and names
        for (name, src) in stress_sources() {
            let wanted = [
                "tail-call-shapes", "shadowing-four-levels", "one-name-everywhere", "fresh-locals-per-call", "let-inside-argument-inside-field-initializer", "fields-named-like-later-globals",
                "readme-array-size-let", "reentrant-methods-and-tail-calls", "definition-last-and-forward-call", "many-locals", "same-text-function-and-method",
            ];
            if !wanted.contains(&name.as_str()) {
                continue;
            }
            if let Ok(ast) = real::parse(&src) {
                let mut rng = ctx.rng("C12stress", 0);
                let j = judge(rep, "C12", &format!("stress:{}", name), &ast, &src, &mut rng, JudgeOpts::full());
                if !j.judged {
                    rep.inconsistency(format!("fixed scoping shape {} is not judged by the reference: {:?}", name, j.outcome.res));
                }
                rep.bump("c12-size", "fixed scoping shapes");
            }
        }
    }
    let max_all = if ctx.quick() { 4 } else { 5 };
    let max_sample = 7;
    let c = counts(max_sample);
    let mut exhaustive_done = true;
    let mut global_index = 0u64;
    let mut rng0 = ctx.rng("C12", 0);
    let dir = ctx.scratch("c12");
    for n in 1..=max_sample {
        let total = c.s[n];
        let all = n <= max_all;
        let sample_per_shard = ctx.share(if n == 5 { 60_000 } else { 30_000 }, if n == 6 { 6_000_000 } else { 2_000_000 });
        let mut done = 0u64;
        let mut idx = 0u64;
        loop {
            let i = if all {
                if idx >= total {
                    break;
                }
                let v = idx;
                idx += 1;
                global_index += 1;
                if !ctx.mine(global_index) {
                    continue;
                }
                v
            } else {
                if done >= sample_per_shard || (done % 512 == 0 && ctx.out_of_time()) {
                    break;
                }
                done += 1;
                rng0.next_u64() % total
            };
            let seq = unrank_seq(&c, n, i);
            for cx in 0..5u8 {
                let ast = c12_program(&seq, cx);
                let src = match printer::to_source(&ast) {
                    Ok(s) => s,
                    Err(_) => {
                        rep.skip("unprintable");
                        continue;
                    }
                };
                let mut rng = ctx.rng("C12j", i);
                let j = judge(rep, "C12", &format!("n{}#{}@{}", n, i, cx), &ast, &src, &mut rng, JudgeOpts::fast());
                rep.bump("c12-size", &format!("{}", n));
                rep.bump("c12-context", ["top", "block", "function", "method", "method-in-block"][cx as usize]);
                if j.judged && (i * 5 + cx as u64) % 20011 == 7 {
                    judge_cli(rep, "C12", &format!("n{}#{}@{}", n, i, cx), &src, &j.outcome, &dir, i);
                }
                if let Res::Static(_) = j.outcome.res {
                    rep.bump("c12-not-judged", "same-scope-redefinition");
                }
                if rep.samples.len() < 3 && j.judged && n >= 4 && j.outcome.out.len() > 25 {
                    rep.sample(json!({"src": src, "expected_stdout": j.outcome.out}));
                }
            }
            if all && idx % 4096 == 0 && !ctx.quick() && ctx.out_of_time() && n == max_all {
                // deterministic enumerations are never cut by time in the thorough tier
            }
        }
        if all {
            rep.count(&format!("sequences_size_{}_enumerated_of_{}", n, total), 1);
        } else {
            exhaustive_done = exhaustive_done && true;
            rep.count(&format!("sequences_size_{}_sampled", n), done);
        }
    }
    rep.exhaustive = Some(false);
    rep.notes.push(format!("all statement sequences of size <= {} enumerated in 5 contexts; sizes up to {} sampled", max_all, max_sample));
    // random larger programs from the general generator, biased to blocks and functions
    let n = ctx.share(40_000, 1_000_000);
    for i in 0..n {
        if i % 128 == 0 && ctx.out_of_time() {
            break;
        }
        let mut rng = ctx.rng("C12big", i);
        let mut o = gen::GenOpts::default();
        o.objects = i % 2 == 0;
        o.arrays = false;
        o.budget = 120;
        o.max_depth = 5;
        o.max_funcs = 4;
        let ast = gen::well_behaved(&mut rng, o);
        if let Ok(src) = printer::to_source(&ast) {
            judge(rep, "C12", &format!("large#{}", i), &ast, &src, &mut rng, JudgeOpts::fast());
            rep.bump("c12-size", "large-random");
        }
    }
}
