//! C06: staged parse | compile | execute equals run, for every AST format.

use crate::parser::AST;
use serde_json::{json, Value};

use super::super::gen;
use super::super::printer;
use super::super::rng::{hash_str, Rng};
use super::super::{cli, real, Ctx, Report};
use super::common::*;

const FORMATS: [(&str, crate::ASTSerializer); 3] = [("json", crate::ASTSerializer::JSON), ("lisp", crate::ASTSerializer::LISP), ("yaml", crate::ASTSerializer::YAML)];

/// Hostile format strings (all expressible between double quotes in source).
fn hostile_formats() -> Vec<String> {
    let mut v: Vec<String> = vec![
        "", " ", "  leading and trailing  ", "~", "null", "true", "false", "123", "-1", "1e3", "0x10", "yes", "no", "on", "off", "~ ~", "y", "n", "NaN", ".inf",
        ": ", "- ", "# not a comment", "& anchor", "* alias", "! tag", "| literal", "> folded", "' single", "% directive", "@ at", "` tick", "{a: b}", "[a, b]", "a: b", "- a",
        "? key", "---", "...", "<<: *x", "!!str x", "\\n", "\\t\\r", "\\\\", "\\\"", "\\~", "(", ")", "((", "))", "(a . b)", "#t", "#f", "#nil", "nil", "'quote", ";comment",
        "#\\\\a", "#(1 2)", "\\\"))", ",@", "a\nb", "a\r\nb", "a\rb", "\tb", "tab\there", "line1\n  indented\n", "\n", "\n\n", " \n", "trailing newline\n", "\u{0}", "a\u{0}b",
        "\u{1}\u{2}\u{7f}", "\u{1b}[0m", "\u{85}", "a\u{85}b", "\u{2028}", "\u{2029}", "\u{feff}", "\u{feff}bom first", "\u{a0}nbsp", "ž", "žluťoučký kůň", "語", "👍", "𝔘𝔫𝔦",
        "\u{10ffff}", "e\u{301}", "~\\n", "a~b~c\\n", "{}", "{0}", "%s %d", "${x}", "$(x)", "<tag>", "&amp;", "a,b", "a;b", "a|b", "/* c */", "// c", "begin end",
    ]
    .into_iter()
    .map(|s| s.to_string())
    .collect();
    // long strings and strings mixing many indicators
    v.push(std::iter::repeat("ab: - # \\n").take(40).collect());
    v.push(std::iter::repeat('語').take(300).collect());
    v
}

/// structural characters of the three AST formats (and of FML itself), to be strung together at random
const HOSTILE_PIECES: [&str; 58] = [
    "(", ")", " (", ") ", "))", "((", ") (", "[", "]", "{", "}", "\\\"", "'", "\\\\", ";", "#", ",", ".", ":", ": ", " :", "- ", "|", ">", "&", "*", "!", "?", "%", "@", "\\~", " ", "  ", "\n", "\t", "\r", "/", "//", "/*", "*/", "=",
    "a", "b", "0", "1", "null", "\\n", "\\t", "`", "$", "^", "+", "<", "_", "\u{e9}", "\u{2028}", "#|", "|#",
];

fn hostile_case(rng: &mut Rng, index: u64) -> AST {
    // every third case draws its strings from random concatenations of structural characters
    // (unbalanced brackets and quotes, indicators after blanks, comment openers …) instead of the list
    let formats = if index % 3 == 0 {
        (0..12)
            .map(|_| {
                let n = 1 + rng.below(if index % 2 == 0 { 8 } else { 24 });
                (0..n)
                    .map(|_| if rng.chance(1, 6) { super::super::progs::special_char(rng).to_string() } else { HOSTILE_PIECES[rng.below(HOSTILE_PIECES.len())].to_string() })
                    .collect::<String>()
            })
            .collect()
    } else {
        hostile_formats()
    };
    let mut w = gen::Wild::new(rng, 30 + (index % 50) as i32, true);
    w.formats = Some(formats);
    w.program(2 + (index % 3) as u32)
}

/// nesting depth of the serde data model as JSON shows it (objects + arrays)
fn value_depth(v: &Value) -> usize {
    // iterative to survive deep ASTs
    let mut max = 0;
    let mut stack: Vec<(&Value, usize)> = vec![(v, 0)];
    while let Some((x, d)) = stack.pop() {
        match x {
            Value::Array(a) => {
                max = max.max(d + 1);
                for y in a {
                    stack.push((y, d + 1));
                }
            }
            Value::Object(o) => {
                max = max.max(d + 1);
                for (_, y) in o {
                    stack.push((y, d + 1));
                }
            }
            _ => {}
        }
    }
    max
}

const VARIANTS: [&str; 20] = [
    "Integer", "Boolean", "Null", "Variable", "Array", "Object", "AccessVariable", "AccessField", "AccessArray", "AssignVariable", "AssignField",
    "AssignArray", "Function", "CallFunction", "CallMethod", "Top", "Block", "Loop", "Conditional", "Print",
];

/// nesting of mappings and sequences as YAML's deserializer counts it: the single-key mapping
/// that wraps an enum variant is not a level of its own
fn yaml_depth(v: &Value) -> usize {
    let mut max = 0;
    let mut stack: Vec<(&Value, usize)> = vec![(v, 0)];
    while let Some((x, d)) = stack.pop() {
        match x {
            Value::Array(a) => {
                max = max.max(d + 1);
                for y in a {
                    stack.push((y, d + 1));
                }
            }
            Value::Object(o) => {
                let wrapper = o.len() == 1 && o.keys().next().map(|k| VARIANTS.contains(&k.as_str())).unwrap_or(false);
                let nd = if wrapper { d } else { d + 1 };
                max = max.max(nd);
                for (_, y) in o {
                    stack.push((y, nd));
                }
            }
            _ => {}
        }
    }
    max
}

/// string-aware bracket depth of a JSON text / parenthesis depth of an S-expression text
fn text_depth(text: &str, open: &[char], close: &[char]) -> usize {
    let mut depth = 0usize;
    let mut max = 0usize;
    let mut in_str = false;
    let mut esc = false;
    for c in text.chars() {
        if in_str {
            if esc {
                esc = false;
            } else if c == '\\' {
                esc = true;
            } else if c == '"' {
                in_str = false;
            }
            continue;
        }
        if c == '"' {
            in_str = true;
        } else if open.contains(&c) {
            depth += 1;
            max = max.max(depth);
        } else if close.contains(&c) {
            depth = depth.saturating_sub(1);
        }
    }
    max
}

/// Probed thresholds (this tree, this dependency set): smallest measured depth at which
/// the deserializer refuses with "recursion limit exceeded". The measurement is independent of
/// the error message: bracket depth of the JSON text, parenthesis depth of the S-expression,
/// and for YAML the JSON-model depth of the AST (YAML block syntax has no brackets to count).
const JSON_LIMIT_DEPTH: usize = 128;
const LISP_LIMIT_DEPTH: usize = 128;
const YAML_LIMIT_MODEL_DEPTH: usize = 129;

fn measured_depth(fmt: &str, text: &str, ast: &AST) -> usize {
    match fmt {
        "json" => text_depth(text, &['{', '['], &['}', ']']),
        "lisp" => text_depth(text, &['('], &[')']),
        _ => serde_json::to_value(ast).map(|v| yaml_depth(&v)).unwrap_or(0),
    }
}

fn at_recursion_limit(fmt: &str, text: &str, ast: &AST) -> bool {
    let d = measured_depth(fmt, text, ast);
    match fmt {
        "json" => d >= JSON_LIMIT_DEPTH,
        "lisp" => d >= LISP_LIMIT_DEPTH,
        _ => d >= YAML_LIMIT_MODEL_DEPTH,
    }
}

fn guarded<T>(f: impl FnOnce() -> anyhow::Result<T>) -> Result<T, String> {
    match std::panic::catch_unwind(std::panic::AssertUnwindSafe(f)) {
        Ok(Ok(x)) => Ok(x),
        Ok(Err(e)) => Err(format!("{:#}", e)),
        Err(_) => Err("panic".into()),
    }
}

/// in-process: each AST format reloads to the identical AST and compiles to identical bytes
fn c06_inprocess(rep: &mut Report, origin: &str, ast: &AST, src: &str) {
    let base = real::compile(ast).and_then(|p| real::serialize(&p));
    for (fname, ser) in FORMATS.iter() {
        rep.evaluations += 1;
        let text = match guarded(|| ser.serialize(ast)) {
            Ok(t) => t,
            Err(e) => {
                rep.violation(&format!("C06:serialize-fails:{}", fname), format!("{}: cannot serialize the AST to {}: {}", origin, fname, e), json!({"check":"C06","src":src,"format":fname}));
                continue;
            }
        };
        rep.conclusive += 1;
        rep.bump("c06-inprocess-format", fname);
        match guarded(|| ser.deserialize(&text)) {
            Ok(back) => {
                if back != *ast {
                    rep.violation(
                        &format!("C06:ast-changed:{}", fname),
                        format!("{}: the AST reloaded from {} differs from the AST that was written\n{}", origin, fname, cli::truncate(src, 400)),
                        json!({"check":"C06","src":src,"format":fname}),
                    );
                    continue;
                }
                if let Ok(b0) = &base {
                    match real::compile(&back).and_then(|p| real::serialize(&p)) {
                        Ok(b1) => {
                            if b1 != *b0 {
                                rep.violation(&format!("C06:bytes-differ:{}", fname), format!("{}: bytecode differs when the AST travels through {}", origin, fname), json!({"check":"C06","src":src,"format":fname}));
                            }
                        }
                        Err(e) => rep.violation(&format!("C06:compile-after-reload:{}", fname), format!("{}: AST reloaded from {} no longer compiles: {}", origin, fname, e), json!({"check":"C06","src":src,"format":fname})),
                    }
                }
            }
            Err(e) => {
                let known = e.contains("recursion limit") && at_recursion_limit(fname, &text, ast);
                let sig = if known { format!("C06:ast-recursion-limit:{}", fname) } else { format!("C06:reload-fails:{}", fname) };
                rep.violation(
                    &sig,
                    format!("{}: the {} deserializer refuses an AST the parser produced (measured depth {}): {}\n{}", origin, fname, measured_depth(fname, &text, ast), cli::truncate(&e, 200), cli::truncate(src, 300)),
                    json!({"check":"C06","src":src,"format":fname}),
                );
            }
        }
    }
}

/// depth ladder shapes
fn ladder_source(shape: usize, depth: usize) -> String {
    match shape % 5 {
        0 => {
            // operator chain (left-nested)
            let mut s = String::from("print(\"~\\n\", 1");
            for _ in 1..depth {
                s.push_str(" + 1");
            }
            s.push_str(");\n");
            s
        }
        1 => {
            let mut s = String::new();
            for _ in 0..depth {
                s.push_str("begin 0; ");
            }
            s.push_str("print(\"deep\\n\")");
            for _ in 0..depth {
                s.push_str(" end");
            }
            s.push_str(";\n");
            s
        }
        2 => {
            let mut s = String::new();
            for i in 0..depth {
                s.push_str(&format!("if {} then ", if i % 2 == 0 { "true" } else { "1 == 1" }));
            }
            s.push_str("print(\"deep\\n\")");
            s.push_str(";\n");
            s
        }
        3 => {
            let mut s = String::from("function f(a) -> a + 1;\nprint(\"~\\n\", ");
            for _ in 0..depth {
                s.push_str("f(");
            }
            s.push('0');
            for _ in 0..depth {
                s.push(')');
            }
            s.push_str(");\n");
            s
        }
        _ => {
            // right-nested through parentheses
            let mut s = String::from("print(\"~\\n\", ");
            for _ in 1..depth {
                s.push_str("(1 + ");
            }
            s.push('1');
            for _ in 1..depth {
                s.push(')');
            }
            s.push_str(");\n");
            s
        }
    }
}

#[derive(Clone, Debug)]
struct Config {
    fmt: usize,
    parse_out: u8,   // 0 file, 1 directory, 2 stdout
    parse_in: u8,    // 0 file, 1 stdin
    parse_fmt: u8,   // 0 explicit, 1 inferred from extension, 2 inferred, upper-case extension
    compile_out: u8, // 0 file, 1 directory, 2 stdout
    compile_in: u8,  // 0 file, 1 stdin
    compile_fmt: u8, // 0 explicit, 1 inferred
    exec_in: u8,     // 0 file, 1 stdin
    /// output files already exist with longer, stale content
    prefill: bool,
    /// with an explicit format, give the AST file the extension of another format
    misleading_ext: bool,
}

fn random_config(rng: &mut Rng) -> Config {
    let mut c = Config {
        fmt: rng.below(3),
        parse_out: rng.below(3) as u8,
        parse_in: rng.below(2) as u8,
        parse_fmt: rng.below(3) as u8,
        compile_out: rng.below(3) as u8,
        compile_in: rng.below(2) as u8,
        compile_fmt: rng.below(2) as u8,
        exec_in: rng.below(2) as u8,
        prefill: rng.coin(),
        misleading_ext: rng.chance(1, 3),
    };
    // combinations the CLI cannot express: the format can only be inferred from a file name
    if c.parse_out != 0 {
        c.parse_fmt = 0;
    }
    if c.compile_in == 1 {
        c.compile_fmt = 0;
    }
    c
}

fn c06_cli(rep: &mut Report, origin: &str, src: &str, ast: &AST, cfg: &Config, dir: &std::path::Path, idx: u64) {
    let (fname, ser) = FORMATS[cfg.fmt];
    let d = dir.join(format!("c{}", idx));
    let _ = std::fs::remove_dir_all(&d);
    if std::fs::create_dir_all(d.join("out1")).is_err() || std::fs::create_dir_all(d.join("out2")).is_err() {
        return;
    }
    // input names: several dots, no extension, upper case, a blank, a dotted directory
    // (a source file is source whatever it is called: names that carry another tool's extension too)
    let (in_name, in_stem): (&str, &str) = match (idx.wrapping_mul(0x9E37_79B9_7F4A_7C15) >> 40) % 16 {
        0 => ("prog.v1.fml", "prog.v1"),
        1 => ("noextension", "noextension"),
        2 => ("UPPER.FML", "UPPER"),
        3 => ("with space.fml", "with space"),
        4 => ("dotted.dir/inner.prog.fml", "inner.prog"),
        5 => ("draft.bc", "draft"),
        6 => ("old copy.BC", "old copy"),
        7 => ("source.json", "source"),
        8 => ("source.yaml", "source"),
        9 => ("source.lisp", "source"),
        10 => ("notes.txt", "notes"),
        11 => ("prog.fml.bak", "prog.fml"),
        12 => (".hidden", ".hidden"),
        13 => ("source.YML", "source"),
        14 => ("source.sexp", "source"),
        _ => ("x.fml", "x"),
    };
    let input = d.join(in_name);
    if let Some(parent) = input.parent() {
        let _ = std::fs::create_dir_all(parent);
    }
    if std::fs::write(&input, src).is_err() {
        return;
    }
    // stdin is delivered whole or in small chunks
    let chunk: Option<usize> = match idx % 4 {
        0 => Some(1 + (idx as usize % 13)),
        1 => Some(4096),
        _ => None,
    };
    let with_stdin = |spec: cli::Spec<'static>, data: &[u8]| -> cli::Spec<'static> {
        let s = spec.stdin(data);
        match chunk {
            Some(n) => s.chunked(n.max(data.len() / 300)),
            None => s,
        }
    };
    let replay = json!({"check":"C06","src":src,"config":format!("{:?}", cfg),"via":"cli"});
    rep.evaluations += 1;
    // reference behaviour: fml run
    let run = cli::fml_run_file(&input);
    if run.timed_out || run.spawn_error.is_some() {
        rep.skip("cli-watchdog");
        return;
    }
    if run.signal.is_some() {
        rep.skip("run-died-by-signal (C10 territory)");
        return;
    }
    let ext = match cfg.parse_fmt {
        2 => fname.to_uppercase(),
        // explicit format: the file name may carry no or a *misleading* extension; the explicit
        // flag must win in both stages
        0 if cfg.misleading_ext => FORMATS[(cfg.fmt + 1 + (idx % 2) as usize) % 3].0.to_string(),
        0 if idx % 5 == 0 => "txt".to_string(),
        _ => fname.to_string(),
    };
    let junk: Vec<u8> = std::iter::repeat(b"stale output from an earlier run\n".to_vec()).take(600).flatten().collect();
    // --- parse
    let mut args: Vec<String> = vec!["parse".into()];
    if cfg.parse_in == 0 {
        args.push(input.to_str().unwrap().into());
    }
    // explicit output files sometimes live in an unusually named directory and are named relative
    // to the working directory (HOME points elsewhere): the file must appear exactly there
    let odd_dir = ["", "", "", "~", "sp ace", "\u{fc}n\u{ef}/c\u{f4}d\u{e9}", "$HOME", "a*b[c]?", "dot.ted.json", "-dash"][((idx.wrapping_mul(0x9E37_79B9_7F4A_7C15) >> 33) % 10) as usize];
    let home = d.join("home-elsewhere");
    let _ = std::fs::create_dir_all(&home);
    let odd_home = home.to_str().unwrap().to_string();
    let ast_path = match cfg.parse_out {
        0 => {
            let rel = std::path::Path::new(odd_dir).join(format!("ast.{}", ext));
            let p = d.join(&rel);
            if let Some(parent) = p.parent() {
                let _ = std::fs::create_dir_all(parent);
            }
            if cfg.prefill {
                let _ = std::fs::write(&p, &junk);
            }
            args.push("-o".into());
            args.push(if odd_dir.is_empty() { p.to_str().unwrap().into() } else { format!("{}{}", if odd_dir.starts_with('-') { "./" } else { "" }, rel.to_str().unwrap()) });
            Some(p)
        }
        1 => {
            args.push("--output-dir".into());
            args.push(d.join("out1").to_str().unwrap().into());
            // name derived from the input (or `ast` for stdin) + the format's extension
            Some(d.join("out1").join(if cfg.parse_in == 0 { format!("{}.{}", in_stem, fname) } else { format!("ast.{}", fname) }))
        }
        _ => None,
    };
    if cfg.parse_fmt == 0 {
        // every accepted spelling of the format, either flag name
        args.push(if idx % 3 == 0 { "--ast".into() } else { "--format".into() });
        let spell: Vec<&str> = match fname {
            "lisp" => vec!["lisp", "LISP", "sexp", "sexpr", "Sexp"],
            "json" => vec!["json", "JSON", "Json"],
            _ => vec!["yaml", "YAML", "Yaml"],
        };
        args.push(spell[(idx as usize / 3) % spell.len()].to_string());
    }
    let argv: Vec<&str> = args.iter().map(|s| s.as_str()).collect();
    let mut spec = cli::Spec::new(&argv).cwd(&d).env("HOME", &odd_home);
    if cfg.parse_in == 1 {
        spec = with_stdin(spec, src.as_bytes());
    }
    rep.bump("c06-config-output-directory", if odd_dir.is_empty() { "plain (absolute path)" } else { odd_dir });
    let p = cli::run(spec);
    let parse_rejected_by_run = !run.success() && run.stdout.is_empty() && real::parse(src).is_err();
    if !p.success() {
        if parse_rejected_by_run {
            rep.skip("source-rejected-by-both");
        } else {
            rep.violation("C06:parse-stage-fails", format!("{}: `fml {}` fails on a program `fml run` parses: {}", origin, args.join(" "), p.describe()), replay);
        }
        return;
    }
    let ast_text: Vec<u8> = match &ast_path {
        Some(pth) => match std::fs::read(pth) {
            Ok(b) => b,
            Err(e) => {
                rep.violation("C06:parse-output-missing", format!("{}: `fml {}` succeeded but {} is missing: {}", origin, args.join(" "), pth.display(), e), replay);
                return;
            }
        },
        None => p.stdout.clone(),
    };
    // what parse wrote must be what the serializer produces for the parser's AST
    if let Ok(expect) = guarded(|| ser.serialize(ast)) {
        if expect.as_bytes() != &ast_text[..] {
            rep.violation("C06:parse-output-differs", format!("{}: `fml {}` wrote a different {} document than the AST serializes to", origin, args.join(" "), fname), replay.clone());
            return;
        }
    }
    // --- compile
    let mut args: Vec<String> = vec!["compile".into()];
    let compile_input = match (&ast_path, cfg.compile_in) {
        (Some(pth), 0) => Some(pth.clone()),
        (None, 0) => {
            // parse wrote to stdout: store it under a name whose extension tells the format
            let pth = d.join(format!("piped.{}", ext));
            let _ = std::fs::write(&pth, &ast_text);
            Some(pth)
        }
        _ => None,
    };
    if let Some(pth) = &compile_input {
        args.push(pth.to_str().unwrap().into());
    }
    let explicit = cfg.compile_fmt == 0 || compile_input.is_none() || ext.to_lowercase() != fname;
    if explicit {
        args.push(if idx % 4 == 1 { "--ast".into() } else { "--input-format".into() });
        args.push(if idx % 2 == 0 { fname.to_uppercase() } else { fname.to_string() });
    }
    if idx % 5 == 2 {
        args.push("--output-format".into());
        args.push(["bytes", "bc", "bytecode", "BYTES"][(idx as usize / 5) % 4].to_string());
    }
    let bc_path = match cfg.compile_out {
        0 => {
            let rel = std::path::Path::new(odd_dir).join("prog.bc");
            let pth = d.join(&rel);
            if let Some(parent) = pth.parent() {
                let _ = std::fs::create_dir_all(parent);
            }
            if cfg.prefill {
                let _ = std::fs::write(&pth, &junk);
            }
            args.push("-o".into());
            args.push(if odd_dir.is_empty() { pth.to_str().unwrap().into() } else { format!("{}{}", if odd_dir.starts_with('-') { "./" } else { "" }, rel.to_str().unwrap()) });
            Some(pth)
        }
        1 => {
            args.push("-o".into());
            args.push(d.join("out2").to_str().unwrap().into());
            let stem = match &compile_input {
                Some(pth) => pth.file_stem().unwrap().to_str().unwrap().to_string(),
                None => "ast".to_string(),
            };
            Some(d.join("out2").join(format!("{}.bc", stem)))
        }
        _ => None,
    };
    let argv: Vec<&str> = args.iter().map(|s| s.as_str()).collect();
    let mut spec = cli::Spec::new(&argv).cwd(&d).env("HOME", &odd_home);
    if compile_input.is_none() {
        spec = with_stdin(spec, &ast_text);
    }
    let c = cli::run(spec);
    rep.conclusive += 1;
    rep.count("cli_pipelines", 1);
    rep.bump("c06-config-format", fname);
    rep.bump("c06-config-parse-out", ["file", "directory", "stdout"][cfg.parse_out as usize]);
    rep.bump("c06-config-parse-in", ["file", "stdin"][cfg.parse_in as usize]);
    rep.bump("c06-config-parse-format", ["explicit", "inferred", "inferred-uppercase"][cfg.parse_fmt as usize]);
    rep.bump("c06-config-compile-out", ["file", "directory", "stdout"][cfg.compile_out as usize]);
    rep.bump("c06-config-compile-in", ["file", "stdin"][cfg.compile_in as usize]);
    rep.bump("c06-config-compile-format", if explicit { "explicit" } else { "inferred" });
    rep.bump("c06-config-execute-in", ["file", "stdin"][cfg.exec_in as usize]);
    rep.bump("c06-config-output-preexists", if cfg.prefill { "yes" } else { "no" });
    rep.bump("c06-config-extension", if ext.to_lowercase() == fname { "matches-format" } else { "misleading-or-none" });
    rep.bump("c06-pairs", &format!("{}/parse-out-{}", fname, cfg.parse_out));
    rep.bump("c06-pairs", &format!("{}/compile-in-{}", fname, cfg.compile_in));
    rep.bump("c06-pairs", &format!("{}/compile-out-{}", fname, cfg.compile_out));
    rep.bump("c06-pairs", &format!("{}/parse-format-{}", fname, cfg.parse_fmt));
    let run_compiles = real::compile(ast).and_then(|p| real::serialize(&p));
    if !c.success() {
        let text = String::from_utf8_lossy(&ast_text).into_owned();
        if run_compiles.is_err() {
            rep.skip("compiler-rejects-in-run-too");
            return;
        }
        let known = c.err_str().contains("recursion limit") && at_recursion_limit(fname, &text, ast);
        let sig = if known { format!("C06:ast-recursion-limit:{}", fname) } else { "C06:compile-stage-fails".to_string() };
        rep.violation(&sig, format!("{}: `fml {}` refuses a program `fml run` accepts (measured depth {}): {}", origin, args.join(" "), measured_depth(fname, &text, ast), c.describe()), replay);
        return;
    }
    let bc: Vec<u8> = match &bc_path {
        Some(pth) => match std::fs::read(pth) {
            Ok(b) => b,
            Err(e) => {
                rep.violation("C06:compile-output-missing", format!("{}: `fml {}` succeeded but {} is missing: {}", origin, args.join(" "), pth.display(), e), replay);
                return;
            }
        },
        None => c.stdout.clone(),
    };
    match &run_compiles {
        Ok(expect) => {
            if *expect != bc {
                rep.violation("C06:bytes-differ-cli", format!("{}: `fml {}` produced {} bytes, compiling the source directly gives {} different bytes", origin, args.join(" "), bc.len(), expect.len()), replay.clone());
                return;
            }
        }
        Err(_) => {
            rep.violation("C06:compile-accepts-what-run-rejects", format!("{}: staged compile succeeds on a program whose direct compilation fails", origin), replay.clone());
            return;
        }
    }
    // --- execute
    let e = if cfg.exec_in == 0 {
        let pth = match &bc_path {
            Some(p) => p.clone(),
            None => {
                let p = d.join("piped.bc");
                let _ = std::fs::write(&p, &bc);
                p
            }
        };
        // a third of the file runs name something that is not a regular file: /dev/stdin behind a pipe, a named
        // pipe, /proc/self/fd/0
        let kind = (idx.wrapping_mul(0x9E37_79B9_7F4A_7C15) >> 37) % 9;
        let special = if kind < 3 { cli::run_input_not_a_file(kind as usize, &["execute"], &bc, &[], &d, "exec") } else { None };
        match special {
            Some(r) => {
                rep.bump("c06-config-execute-path", ["/dev/stdin behind a pipe", "named pipe", "/proc/self/fd/0"][kind as usize]);
                r
            }
            None => {
                rep.bump("c06-config-execute-path", "regular file");
                cli::run(cli::Spec::new(&["execute", pth.to_str().unwrap()]))
            }
        }
    } else {
        cli::run(with_stdin(cli::Spec::new(&["execute"]), &bc))
    };
    if e.timed_out {
        rep.skip("cli-watchdog");
        return;
    }
    if e.stdout != run.stdout || e.success() != run.success() || e.signal != run.signal {
        rep.violation(
            "C06:behaviour-differs",
            format!("{}: staged pipeline ends with {}; `fml run` ends with {}", origin, e.describe(), run.describe()),
            replay,
        );
    }
    if src.len() > 40 {
        rep.nontrivial(hash_str(&format!("{}{:?}", src, cfg)));
    }
    let _ = std::fs::remove_dir_all(&d);
}

pub fn calibrate(_ctx: &Ctx, rep: &mut Report) {
    // prints, for each ladder shape and format, the smallest depth refused and the measured depth
    for shape in 0..5 {
        for (fname, ser) in FORMATS.iter() {
            let mut first_refused: Option<(usize, usize, usize)> = None;
            let mut last_ok = (0, 0);
            for depth in 1..420 {
                let src = ladder_source(shape, depth);
                let ast = match real::parse(&src) {
                    Ok(a) => a,
                    Err(_) => continue,
                };
                let text = match guarded(|| ser.serialize(&ast)) {
                    Ok(t) => t,
                    Err(_) => continue,
                };
                let m = measured_depth(fname, &text, &ast);
                let model = serde_json::to_value(&ast).map(|v| value_depth(&v)).unwrap_or(0);
                match guarded(|| ser.deserialize(&text)) {
                    Ok(_) => last_ok = (depth, m),
                    Err(e) => {
                        if first_refused.is_none() {
                            first_refused = Some((depth, m, model));
                            eprintln!("shape {} {}: first refused at ladder depth {} measured {} model {} ({}); last ok ladder {} measured {}", shape, fname, depth, m, model, cli::truncate(&e, 60), last_ok.0, last_ok.1);
                        }
                    }
                }
            }
            if first_refused.is_none() {
                eprintln!("shape {} {}: never refused up to 420 (last ok measured {})", shape, fname, last_ok.1);
            }
        }
    }
    rep.evaluations = 1;
}

pub fn c06(ctx: &Ctx, rep: &mut Report) {
    if let Some(r) = &ctx.replay {
        if let Some(src) = r.get("src").and_then(|s| s.as_str()) {
            if let Ok(ast) = real::parse(src) {
                c06_inprocess(rep, "replay", &ast, src);
                let dir = ctx.scratch("replay");
                let mut rng = ctx.rng("replay", 0);
                for k in 0..12 {
                    let cfg = random_config(&mut rng);
                    c06_cli(rep, "replay", src, &ast, &cfg, &dir, k);
                }
            }
        }
        return;
    }
    let dir = ctx.scratch("c06");
    // depth ladder: in-process for every depth, CLI for a stride
    let max_depth = 400usize;
    let mut k = 0u64;
    for shape in 0..5usize {
        for depth in 1..=max_depth {
            k += 1;
            if !ctx.mine(k) {
                continue;
            }
            let boundary = [40, 41, 42, 43, 60, 61, 62, 63, 64, 65, 122, 123, 124, 125, 126, 127, 128, 129].contains(&depth);
            if ctx.quick() && depth % 5 != 0 && !boundary {
                continue;
            }
            let src = ladder_source(shape, depth);
            match real::parse(&src) {
                Ok(ast) => {
                    c06_inprocess(rep, &format!("ladder{}:{}", shape, depth), &ast, &src);
                    rep.bump("c06-ladder-shape", ["operator-chain", "blocks", "conditionals", "calls", "parenthesised"][shape]);
                    if depth % (if ctx.quick() { 40 } else { 8 }) == 0 || [60, 61, 62, 63, 64, 123, 124, 125, 126, 127, 128].contains(&depth) && !ctx.quick() {
                        let mut rng = ctx.rng("C06ladder", k);
                        let cfg = random_config(&mut rng);
                        c06_cli(rep, &format!("ladder{}:{}", shape, depth), &src, &ast, &cfg, &dir, k);
                    }
                }
                Err(_) => rep.skip("ladder-source-rejected-by-parser"),
            }
        }
    }
    // in-repo corpus (brainfuck.fml is deep enough to hit the limit)
    for p in corpus("fml") {
        k += 1;
        if !ctx.mine(k) {
            continue;
        }
        if let Ok(src) = std::fs::read_to_string(&p) {
            if let Ok(ast) = real::parse(&src) {
                c06_inprocess(rep, &format!("corpus:{}", p.display()), &ast, &src);
                let mut rng = ctx.rng("C06corpus", k);
                let cfg = random_config(&mut rng);
                c06_cli(rep, &format!("corpus:{}", p.display()), &src, &ast, &cfg, &dir, k);
            }
        }
    }
    // identifiers that a data format might read as something else - YAML 1.1 booleans and nulls in every
    // capitalisation, number look-alikes, the AST's own node and field names - in every identifier position
    let sensitive: [&str; 118] = [
        "y", "Y", "n", "N", "yes", "Yes", "YES", "no", "No", "NO", "on", "On", "ON", "off", "Off", "OFF", "True", "TRUE", "False", "FALSE", "Null", "NULL", "nil", "Nil", "NIL", "NaN", "nan", "NAN", "inf", "Inf",
        "INF", "infinity", "Infinity", "_", "__", "_0", "_1", "e1", "E1", "x1e3", "o17", "x0x10", "t", "T", "f", "F", "nul", "none", "None", "NONE", "undefined", "void", "quote", "lambda", "Top", "Integer",
        "Boolean", "Variable", "Array", "Object", "AccessVariable", "AccessField", "AccessArray", "AssignVariable", "AssignField", "AssignArray", "Function", "Operator", "CallFunction", "CallMethod",
        "CallOperator", "Operation", "Block", "Loop", "Conditional", "Print", "Identifier", "name", "value", "size", "members", "field", "index", "parameters", "body", "arguments", "operator", "left", "right",
        "condition", "consequent", "alternative", "format", "Some", "Ok", "Err", "tag", "type", "kind", "key", "id", "ref", "anchor", "alias", "merge", "binary", "set", "omap", "pairs", "seq", "map", "str",
        "int", "float", "bool", "timestamp", "Addition", "Equality",
    ];
    for w in sensitive.iter() {
        k += 1;
        if !ctx.mine(k) {
            continue;
        }
        let src = format!(
            "let {w} = 1;\nfunction {w}({w}) -> {w};\nlet o = object begin let {w} = 2; function {w}({w}, q) -> this.{w} + {w}; end;\nprint(\"~ ~ ~\\n\", {w}, {w}({w}), o.{w}({w}, o.{w}));\no.{w} <- if {w} == 1 then {w} else {w};\n{w} <- array({w}, {w})[0];\n",
            w = w
        );
        match real::parse(&src) {
            Ok(ast) => {
                c06_inprocess(rep, &format!("identifier:{}", w), &ast, &src);
                if k % 4 == 0 {
                    let mut rng = ctx.rng("C06ident", k);
                    let cfg = random_config(&mut rng);
                    c06_cli(rep, &format!("identifier:{}", w), &src, &ast, &cfg, &dir, k);
                }
                rep.bump("c06-source", "format-sensitive identifiers");
            }
            Err(_) => rep.skip("parser-rejects (C07 territory)"),
        }
    }
    // the deterministic stress shapes (boundary sizes, name clashes between fields, methods and
    // built-ins, literals that are never evaluated, long histories) through the staged tools
    for (name, src) in stress_sources() {
        k += 1;
        if !ctx.mine(k) {
            continue;
        }
        if let Ok(ast) = real::parse(&src) {
            c06_inprocess(rep, &format!("stress:{}", name), &ast, &src);
            let mut rng = ctx.rng("C06stress", k);
            for j in 0..(if ctx.quick() { 1 } else { 3 }) {
                let cfg = random_config(&mut rng);
                c06_cli(rep, &format!("stress:{}", name), &src, &ast, &cfg, &dir, k * 4 + j);
            }
            rep.bump("c06-source", "stress shapes");
        }
    }
    // generated programs with hostile strings
    let n = ctx.share(60_000, 1_500_000);
    let n_cli = ctx.share(2_000, 60_000);
    let cli_every = (n / n_cli).max(1);
    for i in 0..n {
        if i % 64 == 0 && ctx.out_of_time() && i > n / 10 {
            rep.notes.push(format!("time budget reached after {} of {} programs", i, n));
            break;
        }
        let mut rng = ctx.rng("C06", i);
        let (ast, src) = if i % 4 == 3 {
            match well_behaved_case(&mut rng, i) {
                Some(c) => (c.ast, c.src),
                None => continue,
            }
        } else {
            let a = hostile_case(&mut rng, i);
            match printer::to_source(&a) {
                Ok(s) => (a, s),
                Err(_) => {
                    rep.skip("unprintable");
                    continue;
                }
            }
        };
        // the staged pipeline starts from what the real parser reads
        let parsed = match real::parse(&src) {
            Ok(a) => a,
            Err(_) => {
                rep.skip("parser-rejects (C07 territory)");
                continue;
            }
        };
        if parsed != ast {
            rep.skip("parser-reads-differently (C07 territory)");
            continue;
        }
        c06_inprocess(rep, &format!("gen#{}", i), &parsed, &src);
        if src.len() > 40 {
            rep.nontrivial(hash_str(&src));
        }
        // memory guard: the reference machine (which caps array sizes) must be able to run the
        // compiled program before the real VM is asked to
        let too_big = i % cli_every == 0
            && (gen::has_huge_array_size(&parsed, 100_000)
                || match real::compile(&parsed).and_then(|p| real::serialize(&p)).ok().and_then(|b| super::super::bcfmt::read(&b).ok()) {
                    Some(prog) => matches!(super::super::refvm::run_prog(&prog, 300_000).status, super::super::refvm::Status::Ambiguous(_)),
                    None => false,
                });
        if too_big {
            rep.skip("huge-array (memory guard)");
        } else if i % cli_every == 0 {
            // programs that do not terminate within a logical step budget are not sent to the CLI
            let probe = real::pipeline_from_ast(&parsed, 300_000, false);
            if probe.run.as_ref().map(|r| r.capped).unwrap_or(false) {
                rep.skip("non-terminating-program");
            } else {
                let cfg = random_config(&mut rng);
                c06_cli(rep, &format!("gen#{}", i), &src, &parsed, &cfg, &dir, i);
            }
        }
        if rep.samples.len() < 2 && src.len() < 400 && src.contains("print") {
            rep.sample(json!({"src": src, "config": format!("{:?}", random_config(&mut rng))}));
        }
    }
    // the `fml` wrapper script with PARSER / COMPILER / INTERPRETER pointing at the binary
    if ctx.shard < 2 {
        let exe = std::env::current_exe().unwrap();
        let m = if ctx.quick() { 3 } else { 40 };
        for i in 0..m {
            let mut rng = ctx.rng("C06wrapper", i);
            let c = match well_behaved_case(&mut rng, i) {
                Some(c) => c,
                None => continue,
            };
            let d = dir.join(format!("w{}", i));
            let _ = std::fs::create_dir_all(&d);
            let f = d.join("prog.fml");
            if std::fs::write(&f, &c.src).is_err() {
                continue;
            }
            let run = cli::fml_run_file(&f);
            let bash = std::path::Path::new("/bin/bash");
            let w = cli::run(
                cli::Spec::new(&["/repo/fml", "run", f.to_str().unwrap()])
                    .exe(bash)
                    .env("PARSER", exe.to_str().unwrap())
                    .env("COMPILER", exe.to_str().unwrap())
                    .env("INTERPRETER", exe.to_str().unwrap())
                    .cwd(&d),
            );
            rep.evaluations += 1;
            if w.timed_out || w.spawn_error.is_some() || run.timed_out {
                rep.skip("cli-watchdog");
                continue;
            }
            rep.conclusive += 1;
            rep.count("wrapper_script_runs", 1);
            if w.stdout != run.stdout || w.success() != run.success() {
                rep.violation("C06:wrapper-script", format!("the fml wrapper script (staged through JSON) ends with {}; `fml run` ends with {}", w.describe(), run.describe()), json!({"check":"C06","src":c.src,"via":"wrapper"}));
            }
            let _ = std::fs::remove_dir_all(&d);
        }
    }
}
