//! The common oracle for source-level properties: run one program through
//! the real pipeline and through the references, compare, and blame by
//! consensus (DESIGN.md §2.3).

use crate::parser::AST;
use serde_json::json;

use super::super::bcfmt;
use super::super::lockstep;
use super::super::refsem::{self, Outcome, Res};
use super::super::refvm;
use super::super::rng::{hash_str, Rng};
use super::super::{altcc, cli, real, Report};
use super::common::*;

#[derive(Clone, Copy)]
pub struct JudgeOpts {
    /// run real compile -> serialize -> load -> lock-step shadow vs reference VM
    pub lockstep: bool,
    /// run altcc -> bcfmt -> real load -> real VM, and altcc -> refvm (consensus)
    pub consensus: bool,
    /// also run FML's own fetch loop `evaluate_with`
    pub native: bool,
    pub big: bool,
}

impl JudgeOpts {
    pub fn fast() -> JudgeOpts {
        JudgeOpts { lockstep: false, consensus: false, native: false, big: false }
    }
    pub fn full() -> JudgeOpts {
        JudgeOpts { lockstep: true, consensus: true, native: true, big: false }
    }
}

pub struct Judged {
    pub outcome: Outcome,
    pub judged: bool,
}

fn clip(s: &str) -> String {
    cli::truncate(s, 300)
}

/// Compare the real pipeline with the reference semantics on one program.
/// `prop` is the property id used in signatures; `origin` names the case.
pub fn judge(rep: &mut Report, prop: &str, origin: &str, ast: &AST, src: &str, rng: &mut Rng, o: JudgeOpts) -> Judged {
    rep.evaluations += 1;
    let lim = if o.big { big_limits() } else { default_limits() };
    let out = refsem::run(ast, lim);
    rep.bump("reference-result", res_name(&out.res));
    if let Some(h) = &out.order_hazard {
        // not judged: see DESIGN.md §1 (compile-order hazard)
        rep.skip("order-hazard");
        let _ = h;
        return Judged { outcome: out, judged: false };
    }
    match &out.res {
        Res::Ok | Res::Fail(_) => {}
        Res::Static(_) => {
            rep.skip("static-failure");
            return Judged { outcome: out, judged: false };
        }
        Res::Fuel => {
            rep.skip("reference-fuel");
            return Judged { outcome: out, judged: false };
        }
        Res::OutOfFragment(_) => {
            rep.skip("out-of-fragment");
            return Judged { outcome: out, judged: false };
        }
        Res::Ambiguous(m) if m.starts_with("print of a value that contains itself") => {
            // not pinned whether such a print fails or prints something finite; but everything
            // before it must be printed, and if it fails nothing of the failing print may appear
            let p = real::pipeline_from_ast(ast, cap_for(&out), true);
            if let (None, Some(r)) = (&p.stage_error, &p.run) {
                rep.conclusive += 1;
                rep.count("cyclic_print_cases", 1);
                let bad = if r.capped {
                    Some("does not terminate")
                } else if !r.out.starts_with(&out.out) {
                    Some("loses or changes output produced before the print")
                } else if !r.ok && r.out != out.out {
                    Some("fails, yet part of the failing print's text was emitted")
                } else {
                    None
                };
                if let Some(what) = bad {
                    rep.violation(
                        &format!("{}:cyclic-print", prop),
                        format!("{}: printing a value that contains itself {}.\n  output before the print: {:?}\n  observed ok={} out={:?}\n{}", origin, what, clip(&out.out), r.ok, clip(&r.out), clip(src)),
                        json!({"check": prop, "src": src, "origin": origin}),
                    );
                }
            }
            return Judged { outcome: out, judged: false };
        }
        Res::Ambiguous(_) => {
            rep.skip("ambiguous");
            return Judged { outcome: out, judged: false };
        }
    }
    let expect_ok = !out.failed();
    let cap = cap_for(&out);
    let replay = json!({"check": prop, "src": src, "origin": origin});
    // 1. the pipeline as `fml run` performs it
    let p = real::pipeline_from_ast(ast, cap, true);
    rep.conclusive += 1;
    for k in &out.kinds {
        rep.bump("constructs-evaluated", k);
    }
    if nontrivial(&out) {
        rep.nontrivial(hash_str(src));
    }
    let mut subject_differs = false;
    let (r_out, r_ok, r_err) = match (&p.stage_error, &p.run) {
        (Some((stage, e)), _) => (String::new(), false, format!("{}: {}", stage, e)),
        (None, Some(r)) => (r.out.clone(), r.ok, r.err.clone()),
        _ => unreachable!(),
    };
    if let Some(r) = &p.run {
        if r.capped {
            rep.violation(
                &format!("{}:no-termination", prop),
                format!("{}: real VM still running after {} steps; the reference needed {} evaluation steps\n{}", origin, r.steps, out.steps, clip(src)),
                replay.clone(),
            );
            return Judged { outcome: out, judged: true };
        }
    }
    if r_ok != expect_ok || r_out != out.out {
        subject_differs = true;
    }
    // 2. consensus among the harness's own references
    let mut refs_agree = true;
    let mut alt_prog = None;
    if o.consensus || subject_differs {
        match altcc::compile(ast, rng) {
            Ok(prog) => {
                let vm = refvm::run_prog(&prog, cap * 2);
                let vm_ok = vm.status == refvm::Status::Halted;
                let vm_judged = matches!(vm.status, refvm::Status::Halted | refvm::Status::Failed(_)) && !vm.capped;
                if !vm_judged || vm_ok != expect_ok || vm.out != out.out {
                    refs_agree = false;
                    rep.inconsistency(format!(
                        "{}: references disagree: refsem {:?} out={:?}; altcc+refvm {:?} out={:?}\n{}",
                        origin,
                        out.res,
                        clip(&out.out),
                        vm.status,
                        clip(&vm.out),
                        clip(src)
                    ));
                }
                alt_prog = Some(prog);
            }
            Err(e) => {
                rep.count("altcc_rejects", 1);
                let _ = e;
            }
        }
    }
    if subject_differs {
        if refs_agree {
            let what = if r_ok != expect_ok {
                if expect_ok {
                    "fails but the rules define a result"
                } else {
                    "succeeds but the rules make it fail"
                }
            } else if !expect_ok {
                "fails as it should but its output is not exactly the output before the failure"
            } else {
                "prints something else"
            };
            rep.violation(
                &format!("{}:{}", prop, if r_ok != expect_ok { "outcome" } else if !expect_ok { "output-at-failure" } else { "output" }),
                format!(
                    "{}: fml run {}.\n  expected ok={} out={:?}\n  observed ok={} out={:?} err={:?}\n  reference: {:?}\n{}",
                    origin,
                    what,
                    expect_ok,
                    clip(&out.out),
                    r_ok,
                    clip(&r_out),
                    clip(&r_err),
                    out.res,
                    clip(src)
                ),
                replay.clone(),
            );
        }
        return Judged { outcome: out, judged: true };
    }
    // 3. same program without the save/load cycle must behave identically
    if o.native {
        let direct = real::pipeline_from_ast(ast, cap, false);
        if let Some(r) = &direct.run {
            if r.ok != r_ok || r.out != r_out {
                rep.violation(
                    &format!("{}:save-load-changes-behaviour", prop),
                    format!("{}: compiled program prints {:?} (ok={}) directly but {:?} (ok={}) after serialize/load\n{}", origin, clip(&r.out), r.ok, clip(&r_out), r_ok, clip(src)),
                    replay.clone(),
                );
            }
        }
        if let Some(bytes) = &p.bytes {
            if let Ok(loaded) = real::load(bytes) {
                let n = real::run_native(&loaded);
                if n.ok != r_ok || n.out != r_out {
                    rep.violation(
                        &format!("{}:fetch-loop", prop),
                        format!("{}: evaluate_with gives ok={} out={:?} but stepping the same opcodes gives ok={} out={:?}\n{}", origin, n.ok, clip(&n.out), r_ok, clip(&r_out), clip(src)),
                        replay.clone(),
                    );
                }
                rep.count("native_runs", 1);
            }
        }
    }
    // 4. lock-step shadow on the file FML itself compiled
    if o.lockstep {
        if let Some(bytes) = &p.bytes {
            if let (Ok(loaded), Ok(decoded)) = (real::load(bytes), bcfmt::read(bytes)) {
                let l = lockstep::run(&loaded, &decoded, cap);
                rep.count("lockstep_instructions", l.steps);
                if let Some(d) = &l.divergence {
                    rep.violation(&format!("{}:lockstep", prop), format!("{}: VM state diverges from the reference machine: {}\n{}", origin, d, clip(src)), replay.clone());
                } else {
                    // guard on the static validator (C02): the operand depth observed before every
                    // executed instruction must be the depth bcvalid computed for it
                    let v = super::super::bcvalid::validate(&decoded);
                    if v.issues.is_empty() {
                        for ((mi, off), d) in &l.depths {
                            let st = v.depths.get(mi).and_then(|ds| ds.get(*off)).and_then(|x| *x);
                            if st != Some(*d as i32) {
                                rep.inconsistency(format!("{}: bcvalid computes depth {:?} at #{}+{}, the run observed {}\n{}", origin, st, mi, off, d, clip(src)));
                                break;
                            }
                        }
                        rep.count("static_depths_confirmed_dynamically", l.depths.len() as u64);
                    }
                }
            }
        }
    }
    // 5. alternate compiler's file on the real VM
    if o.consensus {
        if let Some(prog) = alt_prog {
            let bytes = bcfmt::write(&prog);
            match real::load(&bytes) {
                Ok(loaded) => {
                    let r = real::run_stepped(&loaded, cap * 2);
                    if r.ok != expect_ok || r.out != out.out {
                        // reported under C05 by its own check; here it is only counted
                        rep.count("altcc_file_differs_on_real_vm", 1);
                    }
                }
                Err(_) => rep.count("altcc_file_unloadable", 1),
            }
        }
    }
    Judged { outcome: out, judged: true }
}

/// Run the real CLI on `src` in three ways and compare with the reference outcome.
pub fn judge_cli(rep: &mut Report, prop: &str, origin: &str, src: &str, out: &Outcome, dir: &std::path::Path, idx: u64) {
    if !out.judged() {
        return;
    }
    let expect_ok = !out.failed();
    let f = dir.join(format!("case{}.fml", idx));
    if std::fs::write(&f, src).is_err() {
        return;
    }
    let replay = json!({"check": prop, "src": src, "origin": origin, "via": "cli"});
    let mut check = |rep: &mut Report, how: &str, r: &cli::CliRun| {
        rep.evaluations += 1;
        if r.timed_out || r.spawn_error.is_some() {
            rep.skip("cli-watchdog");
            return;
        }
        rep.conclusive += 1;
        rep.count("cli_runs", 1);
        if r.signal.is_some() {
            rep.violation(&format!("{}:cli-signal", prop), format!("{}: `{}` died by signal: {}\n{}", origin, how, r.describe(), clip(src)), replay.clone());
            return;
        }
        let ok = r.success();
        if ok != expect_ok || r.out_str() != out.out {
            rep.violation(
                &format!("{}:cli-{}", prop, if ok != expect_ok { "outcome" } else { "output" }),
                format!("{}: `{}`: expected ok={} stdout={:?}; observed {}\n{}", origin, how, expect_ok, clip(&out.out), r.describe(), clip(src)),
                replay.clone(),
            );
            return;
        }
        if ok && !r.stderr.is_empty() {
            rep.violation(&format!("{}:cli-stderr", prop), format!("{}: `{}` succeeds but writes to stderr: {}", origin, how, r.describe()), replay.clone());
        }
        if !ok && r.stderr.is_empty() {
            rep.violation(&format!("{}:cli-no-diagnostic", prop), format!("{}: `{}` fails without a diagnostic: {}", origin, how, r.describe()), replay.clone());
        }
    };
    let r1 = cli::fml_run_file(&f);
    check(rep, "fml run FILE", &r1);
    // every fourth case also with a terminal as standard output and standard error (`script`
    // provides the pseudo-terminal; its only transformation is LF -> CR LF). Successful programs
    // only: a failing one sends its diagnostic to the same terminal.
    if idx % 4 == 1 && expect_ok && std::path::Path::new("/usr/bin/script").exists() {
        if let (Some(fs), Ok(exe)) = (f.to_str(), std::env::current_exe()) {
            if !fs.contains('\'') {
                let inner = format!("'{}' run '{}'", exe.display(), fs);
                let t = cli::run(cli::Spec::new(&["-q", "-e", "-c", &inner, "/dev/null"]).exe(std::path::Path::new("/usr/bin/script")));
                rep.evaluations += 1;
                if t.timed_out || t.spawn_error.is_some() {
                    rep.skip("cli-watchdog");
                } else {
                    rep.conclusive += 1;
                    rep.count("cli_runs_on_a_terminal", 1);
                    let want = out.out.replace('\n', "\r\n");
                    if !t.success() || t.stdout != want.as_bytes() {
                        rep.violation(
                            &format!("{}:cli-terminal", prop),
                            format!("{}: `fml run FILE` with a terminal as stdout/stderr: expected success with {:?} (LF sent as CR LF by the terminal); observed {}\n{}", origin, clip(&want), t.describe(), clip(src)),
                            replay.clone(),
                        );
                    }
                }
            }
        }
    }
    if idx % 2 == 0 {
        let r2 = cli::fml_run_stdin(src);
        check(rep, "fml run < stdin", &r2);
    } else {
        // staged: parse -> json, compile -o, execute
        let j = dir.join(format!("case{}.json", idx));
        let b = dir.join(format!("case{}.bc", idx));
        let a = cli::run(cli::Spec::new(&["parse", f.to_str().unwrap(), "-o", j.to_str().unwrap(), "--format", "json"]));
        let c = cli::run(cli::Spec::new(&["compile", j.to_str().unwrap(), "-o", b.to_str().unwrap()]));
        if a.success() && c.success() {
            let e = cli::run(cli::Spec::new(&["execute", b.to_str().unwrap()]));
            check(rep, "fml parse | compile | execute", &e);
        } else {
            rep.skip("cli-staging-failed (C06 territory)");
        }
        let _ = std::fs::remove_file(&j);
        let _ = std::fs::remove_file(&b);
    }
    let _ = std::fs::remove_file(&f);
}
