//! C09 (built-in operations), C15 (print), C13 (evaluation order).

use crate::parser::{Identifier, AST};
use serde_json::json;

use super::super::bcfmt::{self, Const, Ins, Prog};
use super::super::prim::{self, FmtErr, Prim, V};
use super::super::printer;
use super::super::rng::{hash_str, Rng};
use super::super::{real, Ctx, Report};
use super::common::*;
use super::judge::*;

fn idn(s: &str) -> Identifier {
    Identifier::from(s)
}

// ---------------------------------------------------------------------------------------------
// C09

#[derive(Clone, Copy, Debug, PartialEq)]
enum Operand {
    Null,
    Bool(bool),
    Int(i32),
    Array,
    Object,
}

impl Operand {
    fn ast(&self) -> AST {
        match self {
            Operand::Null => AST::Null,
            Operand::Bool(b) => AST::Boolean(*b),
            Operand::Int(i) => AST::Integer(*i),
            Operand::Array => AST::array(AST::Integer(1), AST::Integer(0)),
            Operand::Object => AST::object(AST::Null, vec![]),
        }
    }
    fn text(&self) -> String {
        match self {
            Operand::Null => "null".into(),
            Operand::Bool(b) => b.to_string(),
            Operand::Int(i) => i.to_string(),
            Operand::Array => "array(1, 0)".into(),
            Operand::Object => "object begin end".into(),
        }
    }
    fn value(&self) -> Option<V> {
        match self {
            Operand::Null => Some(V::Null),
            Operand::Bool(b) => Some(V::Bool(*b)),
            Operand::Int(i) => Some(V::Int(*i)),
            // heap values: only their *kind* matters to a primitive receiver
            Operand::Array | Operand::Object => Some(V::Ref(0)),
        }
    }
}

pub const BOUNDARY: [i32; 16] =
    [0, 1, -1, 2, -2, 7, -7, 46340, 46341, 65536, i32::MIN, i32::MIN + 1, i32::MAX, i32::MAX - 1, -46341, 3];

/// Expected result of `recv.name(args…)` for a primitive receiver, from an i64 table
/// that is the same in every build by construction. None = not judged.
fn expected(recv: Operand, name: &str, args: &[Operand]) -> Option<Result<String, ()>> {
    let vals: Vec<V> = args.iter().map(|a| a.value().unwrap()).collect();
    let p = match recv {
        Operand::Null => prim::null_method(name, &vals),
        Operand::Bool(b) => prim::bool_method(b, name, &vals),
        Operand::Int(i) => {
            // independent recomputation of the arithmetic cells with i64 and explicit rules
            // (the Feeny word spellings denote the same operations)
            let spelled = name;
            let name = match name {
                "add" => "+",
                "sub" => "-",
                "mul" => "*",
                "div" => "/",
                "mod" => "%",
                "lt" => "<",
                "gt" => ">",
                "le" => "<=",
                "ge" => ">=",
                "eq" => "==",
                "neq" => "!=",
                other => other,
            };
            if vals.len() == 1 {
                if let V::Int(b) = vals[0] {
                    let (a, b) = (i as i64, b as i64);
                    let wrap = |x: i64| ((x as i128).rem_euclid(1i128 << 32) as u32) as i32;
                    let r: Option<Result<String, ()>> = match name {
                        "+" => Some(Ok(wrap(a + b).to_string())),
                        "-" => Some(Ok(wrap(a - b).to_string())),
                        "*" => Some(Ok(wrap(a * b).to_string())),
                        "/" => Some(if b == 0 || (a == i32::MIN as i64 && b == -1) { Err(()) } else { Ok(((a.abs() / b.abs()) * a.signum() * b.signum()).to_string()) }),
                        "%" => {
                            if b == 0 {
                                Some(Err(()))
                            } else if a == i32::MIN as i64 && b == -1 {
                                None
                            } else {
                                Some(Ok(((a.abs() % b.abs()) * a.signum()).to_string()))
                            }
                        }
                        "<" => Some(Ok((a < b).to_string())),
                        ">" => Some(Ok((a > b).to_string())),
                        "<=" => Some(Ok((a <= b).to_string())),
                        ">=" => Some(Ok((a >= b).to_string())),
                        "==" => Some(Ok((a == b).to_string())),
                        "!=" => Some(Ok((a != b).to_string())),
                        _ => Some(Err(())),
                    };
                    // the shared table must agree with the recomputation
                    let shared = prim::int_method(i, spelled, &vals);
                    let shared_s = match &shared {
                        Prim::Ok(V::Int(x)) => Some(Ok(x.to_string())),
                        Prim::Ok(V::Bool(x)) => Some(Ok(x.to_string())),
                        Prim::Ok(_) => Some(Err(())),
                        Prim::Fail(_) => Some(Err(())),
                        Prim::Ambiguous(_) => None,
                    };
                    if shared_s != r {
                        return Some(Err(())).filter(|_| false); // disagreement: not judged (counted by caller)
                    }
                    return r;
                }
            }
            prim::int_method(i, spelled, &vals)
        }
        Operand::Array | Operand::Object => return None,
    };
    match p {
        Prim::Ok(V::Int(x)) => Some(Ok(x.to_string())),
        Prim::Ok(V::Bool(x)) => Some(Ok(x.to_string())),
        Prim::Ok(V::Null) => Some(Ok("null".into())),
        Prim::Ok(V::Ref(_)) => None,
        Prim::Fail(_) => Some(Err(())),
        Prim::Ambiguous(_) => None,
    }
}

fn c09_cell(rep: &mut Report, recv: Operand, name: &str, args: &[Operand], via_source: bool) {
    rep.evaluations += 1;
    let call = AST::call_method(recv.ast(), idn(name), args.iter().map(|a| a.ast()).collect());
    let ast = AST::top(vec![AST::print("~".into(), vec![call])]);
    let text = format!("{} {} {:?}", recv.text(), name, args.iter().map(|a| a.text()).collect::<Vec<_>>());
    let p = if via_source {
        match printer::to_source(&ast) {
            Ok(src) => real::pipeline_from_source(&src, 10_000),
            Err(_) => real::pipeline_from_ast(&ast, 10_000, true),
        }
    } else {
        real::pipeline_from_ast(&ast, 10_000, true)
    };
    let observed: Result<String, String> = match (&p.stage_error, &p.run) {
        (Some((st, e)), _) => Err(format!("{}: {}", st, e)),
        (None, Some(r)) => {
            if r.ok {
                Ok(r.out.clone())
            } else if !r.out.is_empty() {
                Ok(format!("<failed after printing {:?}>", r.out))
            } else {
                Err(r.err.clone())
            }
        }
        _ => unreachable!(),
    };
    // digest for the cross-build diff done by the driver
    let obs_digest = match &observed {
        Ok(s) => format!("ok:{}", s),
        Err(_) => "fail".to_string(),
    };
    rep.digests.push(format!("{} => {}", text, obs_digest));
    let kind = |o: &Operand| match o {
        Operand::Null => "null",
        Operand::Bool(_) => "bool",
        Operand::Int(_) => "int",
        Operand::Array => "array",
        Operand::Object => "object",
    };
    let argk: Vec<&str> = args.iter().map(kind).collect();
    rep.bump("c09-cells", &format!("{}.{}({})", kind(&recv), name, argk.join(",")));
    match expected(recv, name, args) {
        None => rep.skip("not-pinned (MIN % -1 / non-primitive receiver)"),
        Some(exp) => {
            rep.conclusive += 1;
            rep.nontrivial(hash_str(&text));
            let same = match (&exp, &observed) {
                (Ok(a), Ok(b)) => a == b,
                (Err(()), Err(_)) => true,
                _ => false,
            };
            if !same {
                let sig = format!("C09:{}.{}({})", kind(&recv), name, argk.join(","));
                rep.violation(
                    &sig,
                    format!("print(\"~\", {}) with method {} and arguments {:?}: expected {:?}, observed {:?} [{} build]", recv.text(), name, args.iter().map(|a| a.text()).collect::<Vec<_>>(), exp, observed, if cfg!(debug_assertions) { "debug" } else { "release" }),
                    json!({"check":"C09","src": printer::to_source(&ast).unwrap_or_default(), "builds": ["release", "debug"]}),
                );
            }
        }
    }
}

pub fn c09(ctx: &Ctx, rep: &mut Report) {
    if let Some(r) = &ctx.replay {
        if let (Some(src), Some(want)) = (r.get("bulk_src").and_then(|s| s.as_str()), r.get("want").and_then(|s| s.as_str())) {
            rep.evaluations += 1;
            let p = real::pipeline_from_source(src, 100_000);
            rep.conclusive += 1;
            let good = matches!((&p.stage_error, &p.run), (None, Some(r)) if r.ok && r.out == want);
            if !good {
                rep.violation("C09:bulk", format!("bulk program does not print the expected lines [{} build]", if cfg!(debug_assertions) { "debug" } else { "release" }), r.clone());
            }
            return;
        }
        if let Some(src) = r.get("src").and_then(|s| s.as_str()) {
            // replay re-evaluates the printed expression against the table
            if let Ok(AST::Top(ss)) = real::parse(src) {
                if let Some(AST::Print { arguments, .. }) = ss.get(0).map(|b| &**b) {
                    if let Some(AST::CallMethod { object, name, arguments: args }) = arguments.get(0).map(|b| &**b) {
                        let conv = |a: &AST| match a {
                            AST::Null => Some(Operand::Null),
                            AST::Boolean(b) => Some(Operand::Bool(*b)),
                            AST::Integer(i) => Some(Operand::Int(*i)),
                            AST::Array { .. } => Some(Operand::Array),
                            AST::Object { .. } => Some(Operand::Object),
                            _ => None,
                        };
                        let recv = conv(object);
                        let ops: Vec<Option<Operand>> = args.iter().map(|a| conv(a)).collect();
                        if let (Some(recv), true) = (recv, ops.iter().all(|o| o.is_some())) {
                            let ops: Vec<Operand> = ops.into_iter().map(|o| o.unwrap()).collect();
                            c09_cell(rep, recv, name.as_str(), &ops, true);
                        }
                    }
                }
            }
        }
        return;
    }
    let int_ops = ["+", "-", "*", "/", "%", "<", ">", "<=", ">=", "==", "!="];
    let all_ops = printer::OPERATORS;
    let mut k = 0u64;
    // exhaustive boundary table: 16 x 16 x 11
    for a in BOUNDARY.iter() {
        for b in BOUNDARY.iter() {
            for op in int_ops.iter() {
                k += 1;
                if ctx.mine(k) {
                    c09_cell(rep, Operand::Int(*a), op, &[Operand::Int(*b)], k % 5 == 0);
                }
            }
        }
    }
    // the same boundary table under the Feeny word spellings (method-call syntax)
    for a in BOUNDARY.iter() {
        for b in BOUNDARY.iter() {
            for op in ["add", "sub", "mul", "div", "mod", "lt", "gt", "le", "ge", "eq", "neq"].iter() {
                k += 1;
                if ctx.mine(k) {
                    c09_cell(rep, Operand::Int(*a), op, &[Operand::Int(*b)], k % 5 == 0);
                }
            }
        }
    }
    // all cross-kind pairs x 13 operators, boolean and null tables included
    let kinds = [
        Operand::Null,
        Operand::Bool(true),
        Operand::Bool(false),
        Operand::Int(0),
        Operand::Int(5),
        Operand::Int(-1),
        Operand::Array,
        Operand::Object,
    ];
    for a in kinds.iter() {
        if matches!(a, Operand::Array | Operand::Object) {
            continue;
        }
        for b in kinds.iter() {
            for op in all_ops.iter() {
                k += 1;
                if ctx.mine(k) {
                    c09_cell(rep, *a, op, &[*b], k % 3 == 0);
                }
            }
        }
        // method-call syntax with 0 and 2 arguments, unknown names, Feeny spellings at source level
        for op in all_ops.iter() {
            k += 1;
            if ctx.mine(k) {
                c09_cell(rep, *a, op, &[], false);
                c09_cell(rep, *a, op, &[Operand::Int(1), Operand::Int(2)], false);
            }
        }
        for name in ["get", "set", "foo", "add", "sub", "mul", "div", "mod", "le", "ge", "lt", "gt", "eq", "neq", "and", "or"].iter() {
            k += 1;
            if ctx.mine(k) {
                c09_cell(rep, *a, name, &[Operand::Int(3)], false);
                c09_cell(rep, *a, name, &[Operand::Bool(true)], false);
                c09_cell(rep, *a, name, &[Operand::Null], false);
            }
        }
    }
    rep.count("table_cells", rep.evaluations);
    // random 32-bit pairs: count-based so that both builds see the same corpus
    let n = ctx.share(60_000, 1_000_000);
    for i in 0..n {
        let mut rng = ctx.rng("C09", i);
        let a = if rng.coin() { rng.i32_any() } else { rng.i32_interesting() };
        let b = match rng.below(14) {
            // relations rather than magnitudes: same bits with the sign flipped, complement, halves
            // swapped, exact multiples and divisors, operands whose difference or sum is MIN/MAX
            10 => a ^ i32::MIN,
            11 => [!a, a.rotate_left(16), a >> 16, a << 16, a >> 1, a.wrapping_mul(2), a.wrapping_abs()][rng.below(7)],
            12 => {
                let d = [2, 3, 5, 7, 16, 641, 65536, -2, -3, -65536][rng.below(10)];
                if rng.coin() { a / d } else { a.wrapping_mul(d) }
            }
            13 => [i32::MIN.wrapping_sub(a), i32::MAX.wrapping_sub(a), a.wrapping_sub(i32::MIN), a.wrapping_sub(i32::MAX), i32::MIN.wrapping_add(a)][rng.below(5)],
            0 | 1 => rng.i32_any(),
            2 => rng.i32_interesting(),
            3 => rng.range(-3, 3) as i32,
            4 => a.wrapping_add(rng.range(-2, 2) as i32),
            5 => a,
            6 => a.wrapping_neg(),
            7 => -1,
            // products that wrap many times, quotients around powers of two and ten
            8 => (1i32 << rng.below(31)) * if rng.coin() { 1 } else { -1 },
            _ => [10, 100, 1000, 10000, 100000, 1000000, 1000000000, -10, -1000, 3, 7, 255, 256, 65535, 65537][rng.below(15)],
        };
        let op = int_ops[rng.below(int_ops.len())];
        c09_cell(rep, Operand::Int(a), op, &[Operand::Int(b)], i % 7 == 0);
    }
    // bulk programs: 24 cells with defined results per program, operands held in variables, fields
    // and elements as well as literals (the table above always uses literals); the expected line
    // comes from the same i64 table
    let nb = ctx.share(400_000, 20_000_000);
    for i in 0..nb {
        if i % 256 == 0 && ctx.out_of_time() && i > nb / 10 {
            rep.notes.push(format!("time budget reached after {} of {} bulk programs", i, nb));
            break;
        }
        let mut rng = ctx.rng("C09bulk", i);
        let mut stmts = vec![
            AST::variable(idn("va"), AST::Integer(0)),
            AST::variable(idn("ob"), AST::object(AST::Null, vec![AST::variable(idn("f"), AST::Integer(0))])),
            AST::variable(idn("ar"), AST::array(AST::Integer(2), AST::Integer(0))),
        ];
        let mut want = String::new();
        let mut cells = 0;
        while cells < 24 {
            let a = if rng.coin() { rng.i32_any() } else { rng.i32_interesting() };
            let b = match rng.below(8) {
                0 => rng.i32_any(),
                1 => rng.i32_interesting(),
                2 => a.wrapping_add(rng.range(-2, 2) as i32),
                3 => a ^ i32::MIN,
                4 => a.wrapping_neg(),
                5 => (1i32 << rng.below(31)) * if rng.coin() { 1 } else { -1 },
                6 => i32::MIN.wrapping_sub(a),
                _ => rng.range(-9, 9) as i32,
            };
            let op = int_ops[rng.below(int_ops.len())];
            let exp = match expected(Operand::Int(a), op, &[Operand::Int(b)]) {
                Some(Ok(s)) => s,
                _ => continue,
            };
            cells += 1;
            // where the operands live
            let hold = |stmts: &mut Vec<AST>, v: i32, how: usize| -> AST {
                match how {
                    0 => {
                        stmts.push(AST::assign_variable(idn("va"), AST::Integer(v)));
                        AST::access_variable(idn("va"))
                    }
                    1 => {
                        stmts.push(AST::assign_field(AST::access_variable(idn("ob")), idn("f"), AST::Integer(v)));
                        AST::access_field(AST::access_variable(idn("ob")), idn("f"))
                    }
                    2 => {
                        stmts.push(AST::assign_array(AST::access_variable(idn("ar")), AST::Integer(1), AST::Integer(v)));
                        AST::access_array(AST::access_variable(idn("ar")), AST::Integer(1))
                    }
                    _ => AST::Integer(v),
                }
            };
            let (ha, hb) = (rng.below(5), rng.below(5));
            let ea = hold(&mut stmts, a, ha);
            // both operands from the same holder would alias: the second one falls back to a literal
            let eb = if hb == ha && hb < 3 { AST::Integer(b) } else { hold(&mut stmts, b, hb) };
            stmts.push(AST::print("~\\n".into(), vec![AST::call_method(ea, idn(op), vec![eb])]));
            want.push_str(&exp);
            want.push('\n');
        }
        let ast = AST::top(stmts);
        rep.evaluations += 1;
        let p = real::pipeline_from_ast(&ast, 100_000, i % 16 == 0);
        match (&p.stage_error, &p.run) {
            (None, Some(r)) if !r.capped => {
                rep.conclusive += 1;
                rep.count("bulk_cells", 24);
                rep.nontrivial(hash_str(&want));
                if !r.ok || r.out != want {
                    // name the first differing line
                    let line = r.out.lines().zip(want.lines()).position(|(x, y)| x != y).unwrap_or(r.out.lines().count().min(want.lines().count()));
                    rep.violation(
                        "C09:bulk",
                        format!("24 arithmetic/comparison cells over variables, fields and elements: line {} differs or the run failed (ok={} err={:?}); expected {:?}, observed {:?} [{} build]", line, r.ok, r.err, want.lines().nth(line), r.out.lines().nth(line), if cfg!(debug_assertions) { "debug" } else { "release" }),
                        json!({"check":"C09","bulk_src": printer::to_source(&ast).unwrap_or_default(), "want": want, "builds": ["release", "debug"]}),
                    );
                }
            }
            (Some((st, e)), _) => rep.violation("C09:bulk-stage", format!("bulk program rejected at {}: {}", st, e), json!({"check":"C09","bulk_src": printer::to_source(&ast).unwrap_or_default(), "want": want})),
            _ => rep.skip("bulk program hit the step cap"),
        }
    }
    rep.sample(json!({"cell": "print(\"~\", 2147483647 + 1)", "expected": "-2147483648"}));
    rep.sample(json!({"cell": "print(\"~\", -7 % 3)", "expected": "-1"}));
    rep.sample(json!({"cell": "print(\"~\", true & 1)", "expected": "failure"}));
}

// ---------------------------------------------------------------------------------------------
// C15

const ALPHABET: [char; 7] = ['~', '\\', 'n', '"', 'a', '\n', 'ž'];

fn fmt_from_index(len: usize, mut i: u64) -> String {
    let mut s = String::new();
    for _ in 0..len {
        s.push(ALPHABET[(i % 7) as usize]);
        i /= 7;
    }
    s
}

/// hand-built bytecode: push `args` integer literals, printf, halt
fn print_prog(fmt: &str, args: usize) -> Prog {
    let mut consts = vec![Const::Str(fmt.to_owned()), Const::Str("main".into())];
    let mut code = Vec::new();
    for a in 0..args {
        consts.push(Const::Int(10 + a as i32));
        code.push(Ins::Lit((consts.len() - 1) as u16));
    }
    code.push(Ins::Print(0, args as u8));
    consts.push(Const::Method { name: 1, arity: 0, locals: 0, code });
    let entry = (consts.len() - 1) as u16;
    Prog { consts, globals: vec![], entry }
}

fn c15_format_case(rep: &mut Report, fmt: &str, nargs: usize) {
    let rendered: Vec<String> = (0..nargs).map(|a| (10 + a).to_string()).collect();
    let exp = prim::format_print(fmt, &rendered);
    let replay = json!({"check":"C15","format":fmt,"nargs":nargs});
    // bytecode level
    rep.evaluations += 1;
    match &exp {
        Err(FmtErr::TrailingBackslash) => rep.skip("lone-trailing-backslash (outside the quantifier)"),
        _ => {
            let prog = print_prog(fmt, nargs);
            let bytes = bcfmt::write(&prog);
            match real::load(&bytes) {
                Ok(p) => {
                    let r = real::run_stepped(&p, 1000);
                    rep.conclusive += 1;
                    rep.nontrivial(hash_str(&format!("bc:{}:{}", fmt, nargs)));
                    let ok = match &exp {
                        Ok(s) => r.ok && r.out == *s,
                        Err(_) => !r.ok && r.out.is_empty(),
                    };
                    rep.bump("c15-bytecode-level", if exp.is_ok() { "prints" } else { "fails" });
                    if !ok {
                        rep.violation(
                            if exp.is_ok() { "C15:bytecode-format" } else { "C15:bytecode-format-failure" },
                            format!("printf {:?} with {} argument(s): expected {:?}, observed ok={} out={:?} err={}", fmt, nargs, exp, r.ok, r.out, r.err),
                            replay.clone(),
                        );
                    }
                }
                Err(e) => rep.violation("C15:load", format!("cannot load print program for format {:?}: {}", fmt, e), replay.clone()),
            }
        }
    }
    // source level: only formats the lexer admits
    if printer::is_source_format(fmt) {
        rep.evaluations += 1;
        let args: Vec<AST> = (0..nargs).map(|a| AST::Integer(10 + a as i32)).collect();
        // `print` yields null: check through a second print
        let ast = AST::top(vec![AST::print("[~]".into(), vec![AST::print(fmt.to_owned(), args)])]);
        let src = match printer::to_source(&ast) {
            Ok(s) => s,
            Err(_) => return,
        };
        let p = real::pipeline_from_source(&src, 1000);
        rep.conclusive += 1;
        rep.nontrivial(hash_str(&format!("src:{}:{}", fmt, nargs)));
        let (out, ok, err) = match (&p.stage_error, &p.run) {
            (Some((st, e)), _) => (String::new(), false, format!("{}: {}", st, e)),
            (None, Some(r)) => (r.out.clone(), r.ok, r.err.clone()),
            _ => unreachable!(),
        };
        if let Some(ast2) = &p.ast {
            if *ast2 != ast {
                rep.violation("C15:source-parse", format!("source format {:?} is read back as a different program", fmt), json!({"check":"C15","src":src}));
                return;
            }
        }
        let good = match &exp {
            Ok(s) => ok && out == format!("{}[null]", s),
            Err(_) => !ok && out.is_empty(),
        };
        rep.bump("c15-source-level", if exp.is_ok() { "prints" } else { "fails" });
        if !good {
            rep.violation(
                if exp.is_ok() { "C15:source-format" } else { "C15:source-format-failure" },
                format!("print({:?}, {} args) at source level: expected {:?} then [null]; observed ok={} out={:?} err={}", fmt, nargs, exp, ok, out, err),
                json!({"check":"C15","src":src}),
            );
        }
    }
}

/// random nested value expression, depth-bounded
fn value_expr(rng: &mut Rng, depth: u32) -> AST {
    // (lengths on both sides of 8, 16, 24, 32, 64 and 256 bytes, with first letters from both ends of the alphabet)
    const NAMES: [&str; 38] = [
        "a", "ab", "abc", "b", "B", "A", "_a", "a_", "a1", "a10", "a2", "z", "Z", "aB", "abcd", "alpha", "zeta", "a_rather_long_field_name", "Zz", "aaaa", "aaab", "b0000",
        "a_rather_long_field_name_", "accumulated_interest_in_cents", "m_twenty_three_character", "Zeta_field_name_of_thirty_two_ch", "zeta_field_name_of_thirty_three_c", "bal", "balance", "seven_c",
        "eight_ch", "nine_char", "fifteen_chars__", "sixteen_chars___", "seventeen_chars__",
        "_underscore_leading_name_that_is_quite_long_indeed_0123456789_64",
        "zz_sixty_five_characters_long_field_name_0123456789_abcdefghijklmn",
        "y_a_name_of_two_hundred_and_fifty_six_bytes_0123456789_0123456789_0123456789_0123456789_0123456789_0123456789_0123456789_0123456789_0123456789_0123456789_0123456789_0123456789_0123456789_0123456789_0123456789_0123456789_0123456789_0123456789_0123456_end256",
    ];
    if depth == 0 || (depth < 6 && rng.chance(1, 4)) {
        return match rng.below(4) {
            0 => AST::Null,
            1 => AST::Boolean(rng.coin()),
            _ => AST::Integer(rng.i32_interesting()),
        };
    }
    if depth >= 6 {
        // deep values are narrow: one child per level
        let inner = value_expr(rng, depth - 1);
        return match rng.below(3) {
            0 => AST::array(AST::Integer(1), if super::super::refsem::is_simple_init(&inner) { AST::block(vec![inner]) } else { inner }),
            1 => AST::object(AST::Null, vec![AST::variable(idn(NAMES[rng.below(NAMES.len())]), inner)]),
            _ => AST::object(inner, vec![]),
        };
    }
    match rng.below(3) {
        0 => {
            let n = rng.below(4) as i32;
            if rng.coin() {
                let init = value_expr(rng, 0);
                AST::array(AST::Integer(n), init)
            } else {
                let init = value_expr(rng, depth - 1);
                let init = if super::super::refsem::is_simple_init(&init) { AST::block(vec![init]) } else { init };
                AST::array(AST::Integer(n), init)
            }
        }
        _ => {
            let parent = if rng.chance(1, 3) { value_expr(rng, depth - 1) } else { AST::Null };
            let wide = rng.chance(1, 4);
            let k = rng.below(if wide { 10 } else { 5 });
            let mut names: Vec<&str> = NAMES.to_vec();
            rng.shuffle(&mut names);
            let mut members = Vec::new();
            for n in names.iter().take(k) {
                let v = value_expr(rng, depth - 1);
                members.push(AST::variable(idn(n), v));
                if rng.chance(1, 4) {
                    members.push(AST::function(idn(&format!("m{}", members.len())), vec![], AST::Null));
                }
            }
            AST::object(parent, members)
        }
    }
}

pub fn c15(ctx: &Ctx, rep: &mut Report) {
    if let Some(r) = &ctx.replay {
        if let (Some(f), Some(n)) = (r.get("format").and_then(|s| s.as_str()), r.get("nargs").and_then(|n| n.as_u64())) {
            c15_format_case(rep, f, n as usize);
        } else if let Some(src) = r.get("src").and_then(|s| s.as_str()) {
            if let Ok(ast) = real::parse(src) {
                let mut rng = ctx.rng("replay", 0);
                let j = judge(rep, "C15", "replay", &ast, src, &mut rng, JudgeOpts::full());
                // and at the CLI, where the source is read by the tool itself
                let dir = ctx.scratch("replay");
                judge_cli(rep, "C15", "replay", src, &j.outcome, &dir, 0);
                judge_cli(rep, "C15", "replay", src, &j.outcome, &dir, 1);
                if r.get("terminal").and_then(|t| t.as_bool()) == Some(true) && j.judged && !j.outcome.failed() {
                    let file = dir.join("terminal.fml");
                    if std::fs::write(&file, src).is_ok() {
                        let inner = format!("'{}' run '{}'", std::env::current_exe().unwrap().display(), file.display());
                        let t = super::super::cli::run(super::super::cli::Spec::new(&["-q", "-e", "-c", &inner, "/dev/null"]).exe(std::path::Path::new("/usr/bin/script")));
                        rep.evaluations += 1;
                        if !t.timed_out && t.spawn_error.is_none() {
                            rep.conclusive += 1;
                            let want_tty = j.outcome.out.replace('\n', "\r\n");
                            if !t.success() || t.stdout != want_tty.as_bytes() {
                                rep.violation("C15:cli-format-bytes-terminal", format!("`fml run` with a terminal as stdout: expected {:?}, observed {}", want_tty, t.describe()), r.clone());
                            }
                        }
                    }
                }
            }
        }
        return;
    }
    let max_all = if ctx.quick() { 4 } else { 6 };
    let mut k = 0u64;
    for len in 0..=6usize {
        let total = 7u64.pow(len as u32);
        for i in 0..total {
            k += 1;
            let take = if len <= max_all { ctx.mine(k) } else { (k.wrapping_mul(0x9E37_79B9_7F4A_7C15).wrapping_add(ctx.seed) >> 20) % 64 == ctx.shard as u64 % 64 && ctx.mine(k / 7) };
            if !take {
                continue;
            }
            let f = fmt_from_index(len, i);
            for nargs in 0..=3 {
                c15_format_case(rep, &f, nargs);
            }
        }
    }
    rep.exhaustive = Some(!ctx.quick());
    rep.count("format_strings_upto_len", max_all as u64);
    // random formats over a wide Unicode alphabet: every character other than ~ and the six escapes
    // is copied unchanged
    let nu = ctx.share(200_000, 4_000_000);
    let cli_every = (nu / if ctx.quick() { 25 } else { 400 }).max(1);
    let cli_dir = ctx.scratch("c15");
    for i in 0..nu {
        let mut rng = ctx.rng("C15u", i);
        let len = rng.below(24);
        let mut f = String::new();
        let mut ph = 0usize;
        for _ in 0..len {
            match rng.below(14) {
                0 => {
                    f.push('~');
                    ph += 1;
                }
                1 => f.push_str(["\\n", "\\t", "\\r", "\\\\", "\\\"", "\\~"][rng.below(6)]),
                2 => f.push(['\u{0}', '\u{1}', '\u{7}', '\u{1b}', '\u{7f}', '\r', '\n', '\t', '\u{b}', '\u{c}'][rng.below(10)]),
                3 => f.push(super::super::progs::special_char(&mut rng)),
                4 => f.push(char::from_u32(0x1f300 + rng.below(0x300) as u32).unwrap_or('😀')),
                5 => f.push(char::from_u32(0x300 + rng.below(0x70) as u32).unwrap_or('\u{301}')),
                6 => f.push(char::from_u32(0x4e00 + rng.below(0x5000) as u32).unwrap_or('中')),
                7 => f.push(char::from_u32(0x10000 + rng.below(0xfffff) as u32).unwrap_or('𝔘')),
                8 => f.push(['%', '{', '}', '$', '#', '\'', '`', '&', '<', '>'][rng.below(10)]),
                _ => f.push(char::from_u32(0x20 + rng.below(0x5f) as u32).filter(|c| *c != '\\' && *c != '"' && *c != '~').unwrap_or('x')),
            }
        }
        // mostly the matching number of arguments
        let nargs = if rng.chance(1, 6) { rng.below(4) } else { ph.min(3) };
        if ph > 3 && nargs == 3 {
            // more placeholders than arguments: a legitimate failing case
        }
        c15_format_case(rep, &f, nargs);
        rep.bump("c15-unicode-formats", if ph == nargs { "matching" } else { "mismatching" });
        // a sample through the real CLI (file and stdin): raw control characters, CR LF pairs and
        // anything else inside a format literal must reach stdout byte for byte
        if i % cli_every == 0 && printer::is_source_format(&f) {
            let mut f2 = f.clone();
            f2.push_str(["\r\n", "\r", "\n", "\t", "", "\r\n\r\n"][rng.below(6)]);
            let rendered: Vec<String> = (0..nargs).map(|a| (10 + a).to_string()).collect();
            if let Ok(expect) = prim::format_print(&f2, &rendered) {
                let args: Vec<AST> = (0..nargs).map(|a| AST::Integer(10 + a as i32)).collect();
                let ast = AST::top(vec![AST::print("begin\\n".into(), vec![]), AST::print(f2.clone(), args), AST::print("end".into(), vec![])]);
                if let Ok(toks) = printer::tokens(&ast, printer::Style::minimal()) {
                    // CR LF line ends between tokens as well
                    let src = toks.join(if i % 2 == 0 { "\r\n" } else { " " });
                    let file = cli_dir.join(format!("u{}.fml", i % 64));
                    if std::fs::write(&file, &src).is_ok() {
                        let run = if i % 3 == 0 { super::super::cli::fml_run_stdin(&src) } else { super::super::cli::fml_run_file(&file) };
                        rep.evaluations += 1;
                        if !run.timed_out && run.spawn_error.is_none() {
                            rep.conclusive += 1;
                            rep.count("cli_runs", 1);
                            let want = format!("begin\n{}end", expect);
                            // the same program with a terminal as standard output (`script` provides the
                            // pseudo-terminal, whose only transformation is LF -> CR LF): print does not
                            // render anything differently for a terminal
                            if (i / cli_every) % 2 == 0 && std::path::Path::new("/usr/bin/script").exists() && !src.contains('\'') {
                                let inner = format!("'{}' run '{}'", std::env::current_exe().unwrap().display(), file.display());
                                let t = super::super::cli::run(super::super::cli::Spec::new(&["-q", "-e", "-c", &inner, "/dev/null"]).exe(std::path::Path::new("/usr/bin/script")));
                                rep.evaluations += 1;
                                if !t.timed_out && t.spawn_error.is_none() {
                                    rep.conclusive += 1;
                                    rep.count("cli_runs_on_a_terminal", 1);
                                    let want_tty = want.replace('\n', "\r\n");
                                    if !t.success() || t.stdout != want_tty.as_bytes() {
                                        rep.violation(
                                            "C15:cli-format-bytes-terminal",
                                            format!("`fml run` with a terminal as stdout, format literal {:?}: expected {:?} (LF sent as CR LF by the terminal), observed {}", f2, want_tty, t.describe()),
                                            json!({"check":"C15","src":src,"terminal":true}),
                                        );
                                    }
                                }
                            }
                            if !run.success() || run.stdout != want.as_bytes() {
                                rep.violation(
                                    "C15:cli-format-bytes",
                                    format!("`fml run` of a print whose format literal is {:?}: expected stdout {:?}, observed {}", f2, want, run.describe()),
                                    json!({"check":"C15","src":src}),
                                );
                            }
                        }
                    }
                }
            }
        }
    }
    // one print whose text is long: a line break followed by a tail that fills or exceeds the usual buffers, the
    // tail coming from the format text or from a rendered argument; through the real CLI, byte for byte
    if ctx.shard == 2 % ctx.nshards {
        let dirl = ctx.scratch("c15long");
        for (n, tail_len) in [0usize, 1, 1022, 1023, 1024, 1025, 2048, 4095, 4096, 4097, 8191, 8192, 8193, 65536, 70001, 65535, 65537, 65538, 65539, 131071, 131073, 200001].iter().enumerate() {
            for via_argument in [false, true].iter() {
                for head in ["", "head\n", "a\n\nb\n"].iter() {
                    // an array of k one-digit elements renders to 3k bytes
                    let k = tail_len / 3 + 1;
                    let (src, want) = if *via_argument {
                        let rendered = format!("[{}]", vec!["7"; k].join(", "));
                        (format!("print(\"{}~\", array({}, 7));\nprint(\"|end\\n\");\n", head.replace('\n', "\\n"), k), format!("{}{}|end\n", head, rendered))
                    } else {
                        // ASCII for the even cases; for the odd ones two-, three- and four-byte characters behind 0-3 ASCII
                        // bytes, so that some character straddles every byte offset a writer might cut at
                        let tail = if n % 2 == 0 {
                            "t".repeat(*tail_len)
                        } else {
                            let unit = ["\u{e9}", "\u{8a9e}", "\u{1f600}"][(n / 2) % 3];
                            let mut t = "a".repeat(n % 4);
                            while t.len() < *tail_len {
                                t.push_str(unit);
                            }
                            t
                        };
                        (format!("print(\"{}{}\");\nprint(\"|end\\n\");\n", head.replace('\n', "\\n"), tail), format!("{}{}|end\n", head, tail))
                    };
                    let file = dirl.join(format!("long{}.fml", n));
                    if std::fs::write(&file, &src).is_err() {
                        continue;
                    }
                    let run = if n % 2 == 0 { super::super::cli::fml_run_file(&file) } else { super::super::cli::fml_run_stdin(&src) };
                    rep.evaluations += 1;
                    if run.timed_out || run.spawn_error.is_some() {
                        rep.skip("cli-watchdog");
                        continue;
                    }
                    rep.conclusive += 1;
                    rep.count("cli_runs", 1);
                    rep.bump("c15-long-prints", if *via_argument { "tail from a rendered argument" } else { "tail from the format text" });
                    if !run.success() || run.stdout != want.as_bytes() {
                        rep.violation(
                            "C15:cli-long-print",
                            format!("a print of {:?} followed by a {}-byte tail ({}): expected success with {} bytes, observed exit {:?} and {} bytes; stderr {:?}", head, tail_len, if *via_argument { "a rendered array" } else { "format text" }, want.len(), run.code, run.stdout.len(), super::super::cli::truncate(&run.err_str(), 200)),
                            json!({"check":"C15","src": if src.len() < 20000 { src.clone() } else { String::new() }, "long": [tail_len, via_argument, head]}),
                        );
                    }
                }
            }
        }
    }
    // rendering of nested values
    let n = ctx.share(150_000, 3_000_000);
    for i in 0..n {
        if i % 256 == 0 && ctx.out_of_time() && i > n / 10 {
            break;
        }
        let mut rng = ctx.rng("C15v", i);
        let k = 1 + rng.below(3);
        let mut fmt = String::new();
        let mut args = Vec::new();
        for _ in 0..k {
            fmt.push_str("~|");
            // mostly depth 1-5, sometimes a narrow value nested 10-16 deep
            args.push(value_expr(&mut rng, if i % 17 == 0 { 10 + (i % 7) as u32 } else { 1 + (i % 5) as u32 }));
        }
        fmt.push_str("\\n");
        // values are also stored and printed through a variable, a field and an element
        let ast = AST::top(vec![
            AST::variable(idn("held"), args[0].clone()),
            AST::print(fmt, args),
            AST::print("~\\n".into(), vec![AST::access_variable(idn("held"))]),
            AST::print("~\\n".into(), vec![AST::array(AST::Integer(2), AST::access_variable(idn("held")))]),
            AST::print("~\\n".into(), vec![AST::object(AST::access_variable(idn("held")), vec![AST::variable(idn("self"), AST::access_variable(idn("held")))])]),
        ]);
        if let Ok(src) = printer::to_source(&ast) {
            let j = judge(rep, "C15", &format!("value#{}", i), &ast, &src, &mut rng, JudgeOpts::fast());
            rep.bump("c15-rendering", "programs");
            if rep.samples.len() < 3 && j.judged && src.len() < 700 && i % 5 >= 2 {
                rep.sample(json!({"src": src, "expected_stdout": j.outcome.out}));
            }
        }
    }
    // formats and values together: escapes, text and up to 12 placeholders around arguments of every
    // kind (a placeholder directly after an escape, at the start or end, two in a row …), sometimes
    // with one argument too many or too few
    let n = ctx.share(100_000, 3_000_000);
    for i in 0..n {
        if i % 256 == 0 && ctx.out_of_time() && i > n / 10 {
            break;
        }
        let mut rng = ctx.rng("C15m", i);
        let pieces = rng.below(if i % 9 == 0 { 26 } else { 9 });
        let mut fmt = String::new();
        let mut ph = 0usize;
        for _ in 0..pieces {
            match rng.below(8) {
                0 | 1 | 2 => {
                    if ph < 12 {
                        fmt.push('~');
                        ph += 1;
                    }
                }
                3 => fmt.push_str(["\\n", "\\t", "\\r", "\\\\", "\\\"", "\\~"][rng.below(6)]),
                4 => fmt.push(['é', '中', '😀', '\u{301}', '%', '{', '}', ' '][rng.below(8)]),
                5 => fmt.push_str(["null", "object(", "[", "]", ", ", "..=", "=", "-"][rng.below(8)]),
                _ => fmt.push(char::from_u32(0x61 + rng.below(26) as u32).unwrap_or('x')),
            }
        }
        let nargs = match rng.below(12) {
            0 => ph + 1,
            1 if ph > 0 => ph - 1,
            _ => ph,
        };
        let args: Vec<AST> = (0..nargs)
            .map(|_| match rng.below(7) {
                0 => AST::Integer([0, -1, i32::MIN, i32::MAX, 10, -2147483647, 1000000000][rng.below(7)]),
                1 => AST::Null,
                2 => AST::Boolean(rng.chance(1, 2)),
                _ => value_expr(&mut rng, 1 + (i % 4) as u32),
            })
            .collect();
        let ast = AST::top(vec![AST::print("<\\n".into(), vec![]), AST::print("[~]\\n".into(), vec![AST::print(fmt, args)]), AST::print(">\\n".into(), vec![])]);
        if let Ok(src) = printer::to_source(&ast) {
            let _ = judge(rep, "C15", &format!("mixed#{}", i), &ast, &src, &mut rng, JudgeOpts::fast());
            rep.bump("c15-mixed-formats", if nargs == ph { "matching" } else { "mismatching" });
            rep.bump("c15-mixed-placeholders", &ph.to_string());
        }
    }
    rep.sample(json!({"format": "a~\\n~", "nargs": 2, "expected": "a10\n11"}));
}

// ---------------------------------------------------------------------------------------------
// C13: evaluation order with self-identifying tracers

/// A shape is an expression tree whose operand positions hold tracers.
#[derive(Clone, Debug)]
enum Sh {
    /// tracer number k returning a value of the named kind
    T(usize, Kind),
    /// boolean literal (no marker)
    Lit(bool),
    /// `gop + k`: a binary operator over a *variable* and a literal; the object's `+` prints <k>, yields k
    VarOp(usize),
    /// `array(LITERAL n, INIT)`: the initializer runs exactly n times (n = 0 … 6)
    ArrayLitSize(usize, Box<Sh>),
    /// `sz <- 2; array(sz, begin sz <- sz + 3; INIT end)`: the size is read once, before any element
    ArrayVarSize(Box<Sh>),
    Bin(&'static str, Box<Sh>, Box<Sh>),
    Call(Vec<Sh>),
    Method(Box<Sh>, Vec<Sh>),
    Object(Box<Sh>, Vec<Sh>),
    ArraySimple(Box<Sh>),
    ArrayCompound(Box<Sh>, Box<Sh>),
    IndexGet(Box<Sh>, Box<Sh>),
    IndexSet(Box<Sh>, Box<Sh>, Box<Sh>),
    FieldSet(Box<Sh>, Box<Sh>),
    FieldGet(Box<Sh>),
    Print(Vec<Sh>),
    If(bool, Box<Sh>, Box<Sh>, Box<Sh>),
    Loop(Box<Sh>),
    Let(Box<Sh>),
    Assign(Box<Sh>),
    Block(Vec<Sh>),
}

#[derive(Clone, Copy, Debug, PartialEq)]
enum Kind {
    Int,
    Zero,
    Two,
    True,
    False,
    Arr,
    Obj,
}

struct ShGen<'r> {
    rng: &'r mut Rng,
    next: usize,
}

impl<'r> ShGen<'r> {
    fn t(&mut self, k: Kind) -> Sh {
        self.next += 1;
        // an Int operand is sometimes an operator expression over a variable instead of a call
        if k == Kind::Int && self.rng.chance(1, 6) {
            return Sh::VarOp(self.next);
        }
        Sh::T(self.next, k)
    }
    /// an operand of kind `k`: a tracer, or (depth permitting) a nested shape yielding that kind
    fn operand(&mut self, k: Kind, depth: u32) -> Sh {
        if depth == 0 || self.rng.chance(1, 3) {
            return self.t(k);
        }
        let d = depth - 1;
        match k {
            Kind::Int | Kind::Zero | Kind::Two => match self.rng.below(8) {
                0 if k == Kind::Int => {
                    let l = self.operand(Kind::Int, d);
                    let r = self.operand(Kind::Int, d);
                    Sh::Bin("+", Box::new(l), Box::new(r))
                }
                1 => {
                    let n = self.rng.below(4);
                    let mut a = vec![self.operand(k, d)];
                    for _ in 0..n {
                        a.push(self.operand(Kind::Int, d));
                    }
                    Sh::Call(a)
                }
                2 => {
                    let c = self.rng.coin();
                    let cond = self.operand(if c { Kind::True } else { Kind::False }, d);
                    let a = self.operand(k, d);
                    let b = self.operand(k, d);
                    Sh::If(c, Box::new(cond), Box::new(a), Box::new(b))
                }
                3 => Sh::Let(Box::new(self.operand(k, d))),
                4 => Sh::Assign(Box::new(self.operand(k, d))),
                6 if k == Kind::Int => match self.rng.below(3) {
                    0 => {
                        let a = self.operand(Kind::Arr, d);
                        let i = self.operand(Kind::Zero, d);
                        Sh::IndexGet(Box::new(a), Box::new(i))
                    }
                    1 => Sh::FieldGet(Box::new(self.operand(Kind::Obj, d))),
                    _ => {
                        let o = self.operand(Kind::Obj, d);
                        let a = self.operand(Kind::Int, d);
                        Sh::Method(Box::new(o), vec![a])
                    }
                },
                5 => {
                    let n = self.rng.below(3);
                    let mut v = Vec::new();
                    for _ in 0..n {
                        let kk = *self.rng.pick(&[Kind::Int, Kind::True, Kind::Arr]);
                        v.push(self.operand(kk, d));
                    }
                    v.push(self.operand(k, d));
                    Sh::Block(v)
                }
                _ => self.t(k),
            },
            Kind::True | Kind::False => self.t(k),
            Kind::Arr => {
                if self.rng.coin() {
                    let n = self.operand(Kind::Two, d);
                    let i = self.operand(Kind::Int, d);
                    Sh::ArrayCompound(Box::new(n), Box::new(i))
                } else {
                    self.t(k)
                }
            }
            Kind::Obj => self.t(k),
        }
    }
    /// a top-level shape (value of any kind, printed afterwards)
    fn shape(&mut self, which: usize, depth: u32) -> Sh {
        let d = depth;
        match which % 18 {
            16 => {
                let n = self.rng.below(7);
                let i = self.operand(Kind::Int, d);
                Sh::ArrayLitSize(n, Box::new(i))
            }
            17 => Sh::ArrayVarSize(Box::new(self.operand(Kind::Int, d))),
            0 => {
                let op = *self.rng.pick(&["+", "-", "*", "==", "<", "<=", "!=", "/", "%"]);
                let l = self.operand(Kind::Int, d);
                let r = self.operand(if op == "/" || op == "%" { Kind::Two } else { Kind::Int }, d);
                Sh::Bin(op, Box::new(l), Box::new(r))
            }
            1 => {
                let op = *self.rng.pick(&["&", "|", "&", "|", "==", "!="]);
                let l = match self.rng.below(4) {
                    0 => Sh::Lit(self.rng.coin()),
                    1 => {
                        // a comparison of two tracers: true for "<", false for ">" (ids increase)
                        let a = self.t(Kind::Int);
                        let b = self.t(Kind::Int);
                        Sh::Bin(if self.rng.coin() { "<" } else { ">" }, Box::new(a), Box::new(b))
                    }
                    2 => self.operand(Kind::False, d),
                    _ => self.operand(Kind::True, d),
                };
                let r = if self.rng.coin() { self.operand(Kind::False, d) } else { self.operand(Kind::True, d) };
                Sh::Bin(op, Box::new(l), Box::new(r))
            }
            2 => {
                let n = *self.rng.pick(&[0usize, 1, 2, 3, 4, 5, 9, 10, 12]);
                let a = (0..n).map(|_| self.operand(Kind::Int, if n > 5 { d.min(1) } else { d })).collect();
                Sh::Call(a)
            }
            3 => {
                let n = *self.rng.pick(&[0usize, 1, 2, 3, 9, 11]);
                let o = self.operand(Kind::Obj, d);
                let a = (0..n).map(|_| self.operand(Kind::Int, d)).collect();
                Sh::Method(Box::new(o), a)
            }
            4 => {
                let n = self.rng.below(5);
                let p = if self.rng.coin() { self.operand(Kind::Obj, d) } else { self.operand(Kind::Int, d) };
                let f = (0..n).map(|_| self.operand(Kind::Int, d)).collect();
                Sh::Object(Box::new(p), f)
            }
            5 => Sh::ArraySimple(Box::new(self.operand(Kind::Two, d))),
            6 => {
                let n = self.operand(Kind::Two, d);
                let i = self.operand(Kind::Int, d);
                Sh::ArrayCompound(Box::new(n), Box::new(i))
            }
            7 => {
                let a = self.operand(Kind::Arr, d);
                let i = self.operand(Kind::Zero, d);
                Sh::IndexGet(Box::new(a), Box::new(i))
            }
            8 => {
                let a = self.operand(Kind::Arr, d);
                let i = self.operand(Kind::Zero, d);
                let v = self.operand(Kind::Int, d);
                Sh::IndexSet(Box::new(a), Box::new(i), Box::new(v))
            }
            9 => {
                let o = self.operand(Kind::Obj, d);
                let v = self.operand(Kind::Int, d);
                Sh::FieldSet(Box::new(o), Box::new(v))
            }
            10 => Sh::FieldGet(Box::new(self.operand(Kind::Obj, d))),
            11 => {
                let n = *self.rng.pick(&[0usize, 1, 2, 3, 4, 9, 12]);
                let a = (0..n).map(|_| { let kk = *self.rng.pick(&[Kind::Int, Kind::Arr, Kind::True]); self.operand(kk, d) }).collect();
                Sh::Print(a)
            }
            12 => {
                let c = self.rng.coin();
                let cond = self.operand(if c { Kind::True } else { Kind::False }, d);
                let a = self.operand(Kind::Int, d);
                let b = self.operand(Kind::Int, d);
                Sh::If(c, Box::new(cond), Box::new(a), Box::new(b))
            }
            13 => Sh::Loop(Box::new(self.operand(Kind::Int, d))),
            14 => {
                // index get / set on an object overriding get and set
                let o = self.operand(Kind::Obj, d);
                let i = self.operand(Kind::Int, d);
                let v = self.operand(Kind::Int, d);
                Sh::IndexSet(Box::new(o), Box::new(i), Box::new(v))
            }
            _ => {
                let n = 1 + self.rng.below(3);
                let v = (0..n).map(|_| self.operand(Kind::Int, d)).collect();
                Sh::Block(v)
            }
        }
    }
}

fn tracer(k: usize, kind: Kind) -> AST {
    let f = match kind {
        Kind::Int => "ti",
        Kind::Zero => "tz",
        Kind::Two => "tw",
        Kind::True => "tt",
        Kind::False => "tf",
        Kind::Arr => "ta",
        Kind::Obj => "to",
    };
    AST::call_function(idn(f), vec![AST::Integer(k as i32)])
}

struct ShEmit {
    lets: usize,
    loops: usize,
}

impl ShEmit {
    fn ast(&mut self, s: &Sh) -> AST {
        match s {
            Sh::T(k, kind) => tracer(*k, *kind),
            Sh::Lit(b) => AST::Boolean(*b),
            Sh::VarOp(k) => AST::call_method(AST::access_variable(idn("gop")), idn("+"), vec![AST::Integer(*k as i32)]),
            Sh::ArrayLitSize(n, i) => AST::array(AST::Integer(*n as i32), self.ast(i)),
            Sh::ArrayVarSize(i) => AST::block(vec![
                AST::assign_variable(idn("sz"), AST::Integer(2)),
                AST::array(
                    AST::access_variable(idn("sz")),
                    AST::block(vec![
                        AST::assign_variable(idn("sz"), AST::call_method(AST::access_variable(idn("sz")), idn("+"), vec![AST::Integer(3)])),
                        self.ast(i),
                    ]),
                ),
            ]),
            Sh::Bin(op, l, r) => AST::call_method(self.ast(l), idn(op), vec![self.ast(r)]),
            Sh::Call(a) => AST::call_function(idn(&format!("id{}", a.len())), a.iter().map(|x| self.ast(x)).collect()),
            Sh::Method(o, a) => AST::call_method(self.ast(o), idn(&format!("m{}", a.len())), a.iter().map(|x| self.ast(x)).collect()),
            Sh::Object(p, fs) => {
                let mut members = Vec::new();
                for (i, f) in fs.iter().enumerate() {
                    members.push(AST::variable(idn(&format!("f{}", i)), self.ast(f)));
                    if i % 2 == 0 {
                        members.push(AST::function(idn(&format!("mm{}", i)), vec![], AST::Integer(0)));
                    }
                }
                AST::object(self.ast(p), members)
            }
            Sh::ArraySimple(n) => AST::array(self.ast(n), AST::Integer(7)),
            Sh::ArrayCompound(n, i) => AST::array(self.ast(n), self.ast(i)),
            Sh::IndexGet(a, i) => AST::access_array(self.ast(a), self.ast(i)),
            Sh::IndexSet(a, i, v) => AST::assign_array(self.ast(a), self.ast(i), self.ast(v)),
            Sh::FieldSet(o, v) => AST::assign_field(self.ast(o), idn("fld"), self.ast(v)),
            Sh::FieldGet(o) => AST::access_field(self.ast(o), idn("fld")),
            Sh::Print(a) => {
                let fmt: String = std::iter::repeat("~,").take(a.len()).collect();
                AST::print(format!("({})", fmt), a.iter().map(|x| self.ast(x)).collect())
            }
            Sh::If(_, c, a, b) => AST::conditional(self.ast(c), self.ast(a), self.ast(b)),
            Sh::Loop(body) => {
                // while tc(id) do BODY : tc prints <c id> and is true twice per loop instance
                self.loops += 1;
                let id = self.loops as i32;
                AST::block(vec![
                    AST::assign_variable(idn("cnt"), AST::Integer(0)),
                    AST::loop_de_loop(AST::call_function(idn("tc"), vec![AST::Integer(id)]), self.ast(body)),
                ])
            }
            Sh::Let(v) => {
                self.lets += 1;
                AST::variable(idn(&format!("lv{}", self.lets)), self.ast(v))
            }
            Sh::Assign(v) => AST::assign_variable(idn("gv"), self.ast(v)),
            Sh::Block(v) => AST::block(v.iter().map(|x| self.ast(x)).collect()),
        }
    }
}

/// Marker sequence predicted directly from the documented order and multiplicities.
fn predict(s: &Sh, out: &mut Vec<String>, loops: &mut usize) {
    match s {
        Sh::T(k, _) => out.push(format!("<{}>", k)),
        Sh::Lit(_) => {}
        Sh::VarOp(k) => out.push(format!("<{}>", k)),
        Sh::ArrayLitSize(n, i) => {
            let times = if let Sh::FieldGet(_) = **i { 1 } else { *n };
            for _ in 0..times {
                predict(i, out, loops);
            }
        }
        Sh::ArrayVarSize(i) => {
            for _ in 0..2 {
                predict(i, out, loops);
            }
        }
        Sh::Bin(_, l, r) => {
            predict(l, out, loops);
            predict(r, out, loops);
        }
        Sh::Call(a) | Sh::Print(a) | Sh::Block(a) => {
            for x in a {
                predict(x, out, loops);
            }
        }
        Sh::Method(o, a) => {
            predict(o, out, loops);
            for x in a {
                predict(x, out, loops);
            }
        }
        Sh::Object(p, fs) => {
            predict(p, out, loops);
            for f in fs {
                predict(f, out, loops);
            }
        }
        Sh::ArraySimple(n) => predict(n, out, loops),
        Sh::ArrayCompound(n, i) => {
            // size once and first, then the initializer once per element (size tracers yield 2)
            predict(n, out, loops);
            // a field access is a *simple* initializer (DESIGN.md §1): evaluated exactly once
            let times = if let Sh::FieldGet(_) = **i { 1 } else { 2 };
            for _ in 0..times {
                predict(i, out, loops);
            }
        }
        Sh::IndexGet(a, i) => {
            predict(a, out, loops);
            predict(i, out, loops);
        }
        Sh::IndexSet(a, i, v) => {
            predict(a, out, loops);
            predict(i, out, loops);
            predict(v, out, loops);
        }
        Sh::FieldSet(o, v) => {
            predict(o, out, loops);
            predict(v, out, loops);
        }
        Sh::FieldGet(o) | Sh::Let(o) | Sh::Assign(o) => predict(o, out, loops),
        Sh::If(taken, c, a, b) => {
            predict(c, out, loops);
            if *taken {
                predict(a, out, loops);
            } else {
                predict(b, out, loops);
            }
        }
        Sh::Loop(body) => {
            *loops += 1;
            let id = *loops;
            // condition before each of the two iterations and once more at exit
            for _ in 0..2 {
                out.push(format!("<c{}>", id));
                predict(body, out, loops);
            }
            out.push(format!("<c{}>", id));
        }
    }
}

/// `predict` numbers loop instances in evaluation order of *first* entry, but a loop nested in
/// a repeated context is emitted once in the AST: keep shapes free of loops inside repeated
/// contexts (array initializers, loop bodies).
fn has_nested_loop(s: &Sh, repeated: bool) -> bool {
    match s {
        Sh::T(..) | Sh::Lit(_) | Sh::VarOp(_) => false,
        Sh::ArrayLitSize(_, i) | Sh::ArrayVarSize(i) => has_nested_loop(i, true),
        Sh::Loop(b) => repeated || has_nested_loop(b, true),
        Sh::ArrayCompound(n, i) => has_nested_loop(n, repeated) || has_nested_loop(i, true),
        Sh::Bin(_, l, r) => has_nested_loop(l, repeated) || has_nested_loop(r, repeated),
        Sh::Call(a) | Sh::Print(a) | Sh::Block(a) => a.iter().any(|x| has_nested_loop(x, repeated)),
        Sh::Method(o, a) | Sh::Object(o, a) => has_nested_loop(o, repeated) || a.iter().any(|x| has_nested_loop(x, repeated)),
        Sh::ArraySimple(n) | Sh::FieldGet(n) | Sh::Let(n) | Sh::Assign(n) => has_nested_loop(n, repeated),
        Sh::IndexGet(a, i) | Sh::FieldSet(a, i) => has_nested_loop(a, repeated) || has_nested_loop(i, repeated),
        Sh::IndexSet(a, i, v) => has_nested_loop(a, repeated) || has_nested_loop(i, repeated) || has_nested_loop(v, repeated),
        Sh::If(_, c, a, b) => has_nested_loop(c, repeated) || has_nested_loop(a, repeated) || has_nested_loop(b, repeated),
    }
}

/// a `let` inside a repeated context would be re-declared: fine for FML (re-executed let), but a
/// let directly inside a compound array initializer is scoped to a hidden block; all good. A
/// let at the same scope level twice cannot happen: names are unique per shape.
const C13_PRELUDE: &str = "\
function ti(k) -> begin print(\"<~>\", k); k end;
function tz(k) -> begin print(\"<~>\", k); 0 end;
function tw(k) -> begin print(\"<~>\", k); 2 end;
function tt(k) -> begin print(\"<~>\", k); true end;
function tf(k) -> begin print(\"<~>\", k); false end;
function ta(k) -> begin print(\"<~>\", k); garr end;
function to(k) -> begin print(\"<~>\", k); gobj end;
function tc(k) -> begin print(\"<c~>\", k); cnt <- cnt + 1; cnt <= 2 end;
function id0() -> 0;
function id1(a) -> a;
function id2(a, b) -> a;
function id3(a, b, c) -> a;
function id4(a, b, c, d) -> a;
function id5(a, b, c, d, e) -> a;
function id9(a, b, c, d, e, f, g, h, i) -> a;
function id10(a, b, c, d, e, f, g, h, i, j) -> begin print(\"[~~~]\", h, i, j); a end;
function id12(a, b, c, d, e, f, g, h, i, j, k, l) -> begin print(\"[~~~~]\", i, j, k, l); a end;
let cnt = 0;
let gop = object begin function +(k) -> begin print(\"<~>\", k); k end; end;
let sz = 0;
let gv = 0;
let garr = array(3, 5);
let gobj = object begin let fld = 1;
  function m0() -> 10; function m1(a) -> a; function m2(a, b) -> b; function m3(a, b, c) -> c;
  function m9(a, b, c, d, e, f, g, h, i) -> begin print(\"[~~~]\", a, h, i); i end;
  function m11(a, b, c, d, e, f, g, h, i, j, k) -> begin print(\"[~~~]\", i, j, k); k end;
  function get(i) -> i; function set(i, v) -> v; end;
";

fn extract_markers(out: &str) -> Vec<String> {
    let mut v = Vec::new();
    let b = out.as_bytes();
    let mut i = 0;
    while i < b.len() {
        if b[i] == b'<' {
            if let Some(j) = out[i..].find('>') {
                let inner = &out[i + 1..i + j];
                if !inner.is_empty() && inner.len() <= 8 && inner.chars().all(|c| c.is_ascii_digit() || c == 'c') {
                    v.push(out[i..=i + j].to_owned());
                    i += j + 1;
                    continue;
                }
            }
        }
        i += 1;
    }
    v
}

pub fn c13(ctx: &Ctx, rep: &mut Report) {
    if let Some(r) = &ctx.replay {
        if let Some(src) = r.get("src").and_then(|s| s.as_str()) {
            if let Ok(ast) = real::parse(src) {
                let mut rng = ctx.rng("replay", 0);
                let j = judge(rep, "C13", "replay", &ast, src, &mut rng, JudgeOpts::full());
                if r.get("via").and_then(|v| v.as_str()) == Some("cli") {
                    let dir = ctx.scratch("replay");
                    judge_cli(rep, "C13", "replay", src, &j.outcome, &dir, 0);
                    judge_cli(rep, "C13", "replay", src, &j.outcome, &dir, 1);
                }
                if let Some(pred) = r.get("predicted").and_then(|p| p.as_array()) {
                    let pred: Vec<String> = pred.iter().filter_map(|x| x.as_str().map(|s| s.to_owned())).collect();
                    let p = real::pipeline_from_source(src, cap_for(&j.outcome));
                    if let Some(run) = p.run {
                        if extract_markers(&run.out) != pred {
                            rep.violation("C13:marker-order", format!("markers {:?} but documented order predicts {:?}", extract_markers(&run.out), pred), r.clone());
                        }
                    }
                }
            }
        }
        return;
    }
    let prelude = match real::parse(C13_PRELUDE) {
        Ok(AST::Top(ss)) => ss,
        _ => {
            rep.inconsistency("C13 prelude does not parse".into());
            return;
        }
    };
    let n = ctx.share(300_000, 6_000_000);
    for i in 0..n {
        if i % 256 == 0 && ctx.out_of_time() && i > n / 10 {
            rep.notes.push(format!("time budget reached after {} of {} shapes", i, n));
            break;
        }
        let mut rng = ctx.rng("C13", i);
        let depth = (i % 4) as u32; // 0: plain tracers in every position … 3: nested three deep
        let mut g = ShGen { rng: &mut rng, next: 0 };
        let which = (i / 4) as usize;
        let sh = g.shape(which, depth);
        if has_nested_loop(&sh, false) {
            rep.skip("loop-in-repeated-context");
            continue;
        }
        let mut e = ShEmit { lets: 0, loops: 0 };
        let body = e.ast(&sh);
        let mut stmts: Vec<AST> = prelude.iter().map(|b| (**b).clone()).collect();
        // value kept (printed) or discarded
        if i % 3 == 0 {
            stmts.push(body);
        } else {
            stmts.push(AST::print("=~\\n".into(), vec![body]));
        }
        stmts.push(AST::print("|~ ~ ~\\n".into(), vec![AST::access_variable(idn("gv")), AST::access_variable(idn("garr")), AST::access_variable(idn("gobj"))]));
        let ast = AST::top(stmts);
        let src = match printer::to_source(&ast) {
            Ok(s) => s,
            Err(_) => {
                rep.skip("unprintable");
                continue;
            }
        };
        let mut predicted = Vec::new();
        let mut loops = 0;
        predict(&sh, &mut predicted, &mut loops);
        let mut jr = ctx.rng("C13j", i);
        let j = judge(rep, "C13", &format!("shape#{}", i), &ast, &src, &mut jr, if i % 8 == 0 { JudgeOpts::full() } else { JudgeOpts::fast() });
        rep.bump("c13-shape", ["binary-int", "binary-bool", "call", "method", "object", "array-simple", "array-compound", "index-get", "index-set", "field-set", "field-get", "print", "if", "loop", "object-index-set", "block", "array-literal-size", "array-size-variable-mutated"][which % 18]);
        rep.bump("c13-depth", &format!("{}", depth));
        if !j.judged {
            continue;
        }
        // second oracle: the marker sequence predicted from the documented rules. The reference
        // itself must satisfy it (else the prediction or the reference is wrong: inconsistency).
        let ref_markers = extract_markers(&j.outcome.out);
        if j.outcome.failed() {
            // a failing shape (e.g. division by a tracer yielding 0) stops early: prefix only
            if !predicted.starts_with(&ref_markers) {
                rep.inconsistency(format!("shape#{}: reference markers {:?} are not a prefix of the prediction {:?}\n{}", i, ref_markers, predicted, src));
            }
            continue;
        }
        if ref_markers != predicted {
            rep.inconsistency(format!("shape#{}: reference markers {:?} differ from the prediction {:?}\n{}", i, ref_markers, predicted, src));
            continue;
        }
        rep.count("marker_sequences_checked", 1);
        rep.count("markers_observed", predicted.len() as u64);
        // the subject's markers (judge already compared whole outputs with the reference; this is
        // the independent second oracle on the real output)
        let p = real::pipeline_from_ast(&ast, cap_for(&j.outcome), true);
        if let Some(run) = p.run {
            let m = extract_markers(&run.out);
            if m != predicted {
                rep.violation(
                    "C13:marker-order",
                    format!("shape#{}: tracer markers {:?}; the documented order predicts {:?}\n{}", i, m, predicted, src),
                    json!({"check":"C13","src":src,"predicted":predicted}),
                );
            }
        }
        if rep.samples.len() < 3 && depth >= 2 && src.len() < 2500 && predicted.len() >= 5 {
            rep.sample(json!({"shape": format!("{:?}", sh), "predicted_markers": predicted, "expected_stdout": j.outcome.out}));
        }
    }
}
