//! Primitive value domain shared by the two reference evaluators: values,
//! built-in method tables (README + C05/C09), print formatting (C15).
//! Everything here is table-like and written from the documentation.

#[derive(Clone, Copy, PartialEq, Eq, Debug, Hash)]
pub enum V {
    Null,
    Int(i32),
    Bool(bool),
    Ref(usize),
}

impl V {
    pub fn truthy(&self) -> bool {
        !matches!(self, V::Null | V::Bool(false))
    }
    pub fn kind(&self) -> &'static str {
        match self {
            V::Null => "null",
            V::Int(_) => "int",
            V::Bool(_) => "bool",
            V::Ref(_) => "ref",
        }
    }
}

/// Result of a built-in operation.
#[derive(Debug, Clone, PartialEq)]
pub enum Prim {
    Ok(V),
    Fail(String),
    /// The properties do not pin the result (e.g. MIN % -1): the case is not judged.
    Ambiguous(String),
}

fn canon(name: &str) -> &str {
    // Feeny spellings are aliases of the FML operator names (C05).
    match name {
        "add" => "+",
        "sub" => "-",
        "mul" => "*",
        "div" => "/",
        "mod" => "%",
        "le" => "<=",
        "ge" => ">=",
        "lt" => "<",
        "gt" => ">",
        "eq" => "==",
        "neq" => "!=",
        "and" => "&",
        "or" => "|",
        x => x,
    }
}

pub fn int_method(a: i32, name: &str, args: &[V]) -> Prim {
    if args.len() != 1 {
        return Prim::Fail(format!("integer method {} called with {} arguments", name, args.len()));
    }
    let op = canon(name);
    // `and`/`or` are boolean spellings only
    if name == "and" || name == "or" || op == "&" || op == "|" {
        return Prim::Fail(format!("no method {} on integer", name));
    }
    let a64 = a as i64;
    match (op, args[0]) {
        ("==", V::Int(b)) => Prim::Ok(V::Bool(a == b)),
        ("!=", V::Int(b)) => Prim::Ok(V::Bool(a != b)),
        ("==", _) => Prim::Ok(V::Bool(false)),
        ("!=", _) => Prim::Ok(V::Bool(true)),
        ("+", V::Int(b)) => Prim::Ok(V::Int((a64 + b as i64) as i32)),
        ("-", V::Int(b)) => Prim::Ok(V::Int((a64 - b as i64) as i32)),
        ("*", V::Int(b)) => Prim::Ok(V::Int((a64 * b as i64) as i32)),
        ("/", V::Int(b)) => {
            if b == 0 {
                Prim::Fail("division by zero".into())
            } else if a == i32::MIN && b == -1 {
                Prim::Fail("MIN / -1".into())
            } else {
                // i64 division truncates toward zero
                Prim::Ok(V::Int((a64 / b as i64) as i32))
            }
        }
        ("%", V::Int(b)) => {
            if b == 0 {
                Prim::Fail("remainder by zero".into())
            } else if a == i32::MIN && b == -1 {
                Prim::Ambiguous("MIN % -1 is not pinned by C09".into())
            } else {
                // i64 remainder takes the sign of the dividend
                Prim::Ok(V::Int((a64 % b as i64) as i32))
            }
        }
        ("<=", V::Int(b)) => Prim::Ok(V::Bool(a <= b)),
        (">=", V::Int(b)) => Prim::Ok(V::Bool(a >= b)),
        ("<", V::Int(b)) => Prim::Ok(V::Bool(a < b)),
        (">", V::Int(b)) => Prim::Ok(V::Bool(a > b)),
        ("+", _) | ("-", _) | ("*", _) | ("/", _) | ("%", _) | ("<=", _) | (">=", _) | ("<", _) | (">", _) => {
            Prim::Fail(format!("integer method {} needs an integer argument", name))
        }
        _ => Prim::Fail(format!("no method {} on integer", name)),
    }
}

pub fn bool_method(a: bool, name: &str, args: &[V]) -> Prim {
    if args.len() != 1 {
        return Prim::Fail(format!("boolean method {} called with {} arguments", name, args.len()));
    }
    // only and/or/eq/neq are Feeny spellings on booleans
    let op = match name {
        "and" => "&",
        "or" => "|",
        "eq" => "==",
        "neq" => "!=",
        "&" | "|" | "==" | "!=" => name,
        _ => return Prim::Fail(format!("no method {} on boolean", name)),
    };
    match (op, args[0]) {
        ("&", V::Bool(b)) => Prim::Ok(V::Bool(a && b)),
        ("|", V::Bool(b)) => Prim::Ok(V::Bool(a || b)),
        ("==", V::Bool(b)) => Prim::Ok(V::Bool(a == b)),
        ("!=", V::Bool(b)) => Prim::Ok(V::Bool(a != b)),
        ("==", _) => Prim::Ok(V::Bool(false)),
        ("!=", _) => Prim::Ok(V::Bool(true)),
        _ => Prim::Fail(format!("boolean method {} needs a boolean argument", name)),
    }
}

pub fn null_method(name: &str, args: &[V]) -> Prim {
    if args.len() != 1 {
        return Prim::Fail(format!("null method {} called with {} arguments", name, args.len()));
    }
    match (name, args[0]) {
        ("==", V::Null) | ("eq", V::Null) => Prim::Ok(V::Bool(true)),
        ("==", _) | ("eq", _) => Prim::Ok(V::Bool(false)),
        ("!=", V::Null) | ("neq", V::Null) => Prim::Ok(V::Bool(false)),
        ("!=", _) | ("neq", _) => Prim::Ok(V::Bool(true)),
        _ => Prim::Fail(format!("no method {} on null", name)),
    }
}

/// Built-in array methods: exactly get(i) and set(i, v).
pub fn array_method(arr: &mut Vec<V>, name: &str, args: &[V]) -> Prim {
    match name {
        "get" => {
            if args.len() != 1 {
                return Prim::Fail("array get needs 1 argument".into());
            }
            match args[0] {
                V::Int(i) if i >= 0 && (i as usize) < arr.len() => Prim::Ok(arr[i as usize]),
                other => Prim::Fail(format!("array index {:?} invalid for length {}", other, arr.len())),
            }
        }
        "set" => {
            if args.len() != 2 {
                return Prim::Fail("array set needs 2 arguments".into());
            }
            match args[0] {
                V::Int(i) if i >= 0 && (i as usize) < arr.len() => {
                    arr[i as usize] = args[1];
                    Prim::Ok(args[1])
                }
                other => Prim::Fail(format!("array index {:?} invalid for length {}", other, arr.len())),
            }
        }
        _ => Prim::Fail(format!("no method {} on array", name)),
    }
}

#[derive(Debug, Clone, PartialEq)]
pub enum FmtErr {
    /// A definite failure by the rules of C15.
    Fail(String),
    /// Format ends in a lone backslash: outside the quantifier of C15.
    TrailingBackslash,
}

/// Independent formatter for print: `~` consumes the next argument, the six
/// escapes decode, anything else is copied; count mismatch or unknown escape
/// is a failure. `args` are already rendered.
pub fn format_print(fmt: &str, args: &[String]) -> Result<String, FmtErr> {
    let mut out = String::new();
    let mut next = 0usize;
    let mut it = fmt.chars();
    while let Some(c) = it.next() {
        if c == '\\' {
            match it.next() {
                None => return Err(FmtErr::TrailingBackslash),
                Some('n') => out.push('\n'),
                Some('t') => out.push('\t'),
                Some('r') => out.push('\r'),
                Some('\\') => out.push('\\'),
                Some('"') => out.push('"'),
                Some('~') => out.push('~'),
                Some(x) => return Err(FmtErr::Fail(format!("unknown escape \\{}", x))),
            }
        } else if c == '~' {
            if next >= args.len() {
                return Err(FmtErr::Fail("too few arguments for format".into()));
            }
            out.push_str(&args[next]);
            next += 1;
        } else {
            out.push(c);
        }
    }
    if next != args.len() {
        return Err(FmtErr::Fail(format!("{} unused argument(s)", args.len() - next)));
    }
    Ok(out)
}

/// Number of `~` placeholders a format consumes (ignoring escaped ones).
pub fn placeholders(fmt: &str) -> usize {
    let mut n = 0;
    let mut it = fmt.chars();
    while let Some(c) = it.next() {
        if c == '\\' {
            it.next();
        } else if c == '~' {
            n += 1;
        }
    }
    n
}

/// Heap shared by the reference evaluators. `M` is the method payload.
#[derive(Clone, Debug)]
pub enum HObj<M: Clone> {
    Array(Vec<V>),
    Object { parent: V, fields: Vec<(String, V)>, methods: Vec<(String, M)> },
}

#[derive(Debug)]
pub enum RenderErr {
    Cyclic,
    Dangling(usize),
}

/// Canonical rendering (C15). Detects cycles on the current path.
pub fn render<M: Clone>(heap: &[HObj<M>], v: V) -> Result<String, RenderErr> {
    let mut out = String::new();
    let mut path: Vec<usize> = Vec::new();
    render_into(heap, v, &mut out, &mut path)?;
    Ok(out)
}

fn render_into<M: Clone>(heap: &[HObj<M>], v: V, out: &mut String, path: &mut Vec<usize>) -> Result<(), RenderErr> {
    match v {
        V::Null => out.push_str("null"),
        V::Int(i) => out.push_str(&i.to_string()),
        V::Bool(b) => out.push_str(if b { "true" } else { "false" }),
        V::Ref(r) => {
            if path.contains(&r) {
                return Err(RenderErr::Cyclic);
            }
            let o = heap.get(r).ok_or(RenderErr::Dangling(r))?;
            path.push(r);
            // An explicit stack would be needed for very long chains; callers
            // run on a big-stack thread instead.
            match o {
                HObj::Array(es) => {
                    out.push('[');
                    for (i, e) in es.iter().enumerate() {
                        if i > 0 {
                            out.push_str(", ");
                        }
                        render_into(heap, *e, out, path)?;
                    }
                    out.push(']');
                }
                HObj::Object { parent, fields, .. } => {
                    out.push_str("object(");
                    let mut first = true;
                    if *parent != V::Null {
                        out.push_str("..=");
                        render_into(heap, *parent, out, path)?;
                        first = false;
                    }
                    let mut fs: Vec<&(String, V)> = fields.iter().collect();
                    fs.sort_by(|a, b| a.0.as_bytes().cmp(b.0.as_bytes()));
                    for (n, fv) in fs {
                        if !first {
                            out.push_str(", ");
                        }
                        first = false;
                        out.push_str(n);
                        out.push('=');
                        render_into(heap, *fv, out, path)?;
                    }
                    out.push(')');
                }
            }
            path.pop();
        }
    }
    Ok(())
}
