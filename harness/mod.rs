//! Verification harness for kondziu/FML, compiled INTO the fml binary under
//! `--cfg kondziu_fml_verif` (see /verif/DESIGN.md §2). `fml verif-harness …`
//! runs one shard of one check and writes a JSON result; every other
//! invocation behaves exactly like the normal CLI.
#![allow(dead_code)]

pub mod altcc;
pub mod bcfmt;
pub mod bcvalid;
pub mod checks;
pub mod cli;
pub mod conv;
pub mod gen;
pub mod listing;
pub mod lockstep;
pub mod prim;
pub mod progs;
pub mod printer;
pub mod real;
pub mod refsem;
pub mod refvm;
pub mod rng;
pub mod sinks;

use serde_json::{json, Map, Value};
use std::collections::{BTreeMap, HashSet};
use std::path::PathBuf;
use std::time::{Duration, Instant};

#[derive(Clone, Copy, Debug, PartialEq)]
pub enum Tier {
    Quick,
    Thorough,
}

pub struct Ctx {
    pub check: String,
    pub seed: u64,
    pub shard: usize,
    pub nshards: usize,
    pub tier: Tier,
    pub work: PathBuf,
    /// multiplier applied to case counts (driver may scale budgets)
    pub scale: f64,
    pub start: Instant,
    /// soft time budget: random generation stops when spent (never below the floor)
    pub time_budget: Duration,
    pub build: String,
    pub replay: Option<Value>,
}

impl Ctx {
    pub fn quick(&self) -> bool {
        self.tier == Tier::Quick
    }
    pub fn out_of_time(&self) -> bool {
        self.start.elapsed() > self.time_budget
    }
    /// number of random cases this shard should run: total/nshards, scaled
    pub fn share(&self, total_quick: u64, total_thorough: u64) -> u64 {
        let t = if self.quick() { total_quick } else { total_thorough };
        let per = (t as f64 * self.scale / self.nshards as f64).ceil() as u64;
        per.max(1)
    }
    /// does deterministic item `i` belong to this shard?
    pub fn mine(&self, i: u64) -> bool {
        (i % self.nshards as u64) as usize == self.shard
    }
    pub fn rng(&self, label: &str, index: u64) -> rng::Rng {
        rng::Rng::derive(self.seed, label, self.shard as u64, index)
    }
    pub fn scratch(&self, name: &str) -> PathBuf {
        let p = self.work.join(format!("s{}-{}", self.shard, name));
        let _ = std::fs::create_dir_all(&p);
        p
    }
}

#[derive(Clone, Debug)]
pub struct Violation {
    /// stable signature used to match known findings and to de-duplicate
    pub signature: String,
    pub summary: String,
    pub replay: Value,
}

#[derive(Default)]
pub struct Report {
    pub evaluations: u64,
    pub conclusive: u64,
    pub nontrivial: HashSet<u64>,
    pub inconclusive: BTreeMap<String, u64>,
    pub hist: BTreeMap<String, BTreeMap<String, u64>>,
    pub counters: BTreeMap<String, u64>,
    pub samples: Vec<Value>,
    pub violations: Vec<Violation>,
    pub inconsistencies: Vec<String>,
    pub notes: Vec<String>,
    pub exhaustive: Option<bool>,
    pub digests: Vec<String>,
}

impl Report {
    pub fn count(&mut self, k: &str, n: u64) {
        *self.counters.entry(k.to_owned()).or_insert(0) += n;
    }
    pub fn bump(&mut self, hist: &str, key: &str) {
        *self.hist.entry(hist.to_owned()).or_default().entry(key.to_owned()).or_insert(0) += 1;
    }
    pub fn bump_n(&mut self, hist: &str, key: &str, n: u64) {
        *self.hist.entry(hist.to_owned()).or_default().entry(key.to_owned()).or_insert(0) += n;
    }
    pub fn skip(&mut self, reason: &str) {
        *self.inconclusive.entry(reason.to_owned()).or_insert(0) += 1;
    }
    pub fn nontrivial(&mut self, h: u64) {
        self.nontrivial.insert(h);
    }
    pub fn sample(&mut self, v: Value) {
        if self.samples.len() < 4 {
            self.samples.push(v);
        }
    }
    pub fn violation(&mut self, signature: &str, summary: String, replay: Value) {
        // keep at most a handful per signature, and bound the total
        let same = self.violations.iter().filter(|v| v.signature == signature).count();
        self.count("violations_total", 1);
        if same < 3 && self.violations.len() < 60 {
            self.violations.push(Violation { signature: signature.to_owned(), summary, replay });
        }
    }
    pub fn inconsistency(&mut self, s: String) {
        self.count("harness_inconsistencies", 1);
        if self.inconsistencies.len() < 10 {
            self.inconsistencies.push(s);
        }
    }
    pub fn to_json(&self, ctx: &Ctx) -> Value {
        let mut hist = Map::new();
        for (k, m) in &self.hist {
            let mut mm = Map::new();
            for (kk, v) in m {
                mm.insert(kk.clone(), json!(v));
            }
            hist.insert(k.clone(), Value::Object(mm));
        }
        json!({
            "check": ctx.check,
            "shard": ctx.shard,
            "nshards": ctx.nshards,
            "seed": ctx.seed,
            "build": ctx.build,
            "evaluations": self.evaluations,
            "conclusive": self.conclusive,
            "nontrivial_count": self.nontrivial.len(),
            "inconclusive": self.inconclusive,
            "hist": Value::Object(hist),
            "counters": self.counters,
            "samples": self.samples,
            "violations": self.violations.iter().map(|v| json!({"signature": v.signature, "summary": v.summary, "replay": v.replay})).collect::<Vec<_>>(),
            "inconsistencies": self.inconsistencies,
            "notes": self.notes,
            "exhaustive": self.exhaustive,
            "digests": self.digests,
            "wall_s": ctx.start.elapsed().as_secs_f64(),
        })
    }
}

fn arg_value(args: &[String], name: &str) -> Option<String> {
    let mut i = 0;
    while i < args.len() {
        if args[i] == name && i + 1 < args.len() {
            return Some(args[i + 1].clone());
        }
        i += 1;
    }
    None
}

pub fn b64(bytes: &[u8]) -> String {
    const T: &[u8; 64] = b"ABCDEFGHIJKLMNOPQRSTUVWXYZabcdefghijklmnopqrstuvwxyz0123456789+/";
    let mut s = String::new();
    for c in bytes.chunks(3) {
        let b = [c[0], *c.get(1).unwrap_or(&0), *c.get(2).unwrap_or(&0)];
        s.push(T[(b[0] >> 2) as usize] as char);
        s.push(T[(((b[0] & 3) << 4) | (b[1] >> 4)) as usize] as char);
        s.push(if c.len() > 1 { T[(((b[1] & 15) << 2) | (b[2] >> 6)) as usize] as char } else { '=' });
        s.push(if c.len() > 2 { T[(b[2] & 63) as usize] as char } else { '=' });
    }
    s
}

pub fn unb64(s: &str) -> Vec<u8> {
    let mut out = Vec::new();
    let mut acc: u32 = 0;
    let mut bits = 0;
    for ch in s.bytes() {
        let v = match ch {
            b'A'..=b'Z' => ch - b'A',
            b'a'..=b'z' => ch - b'a' + 26,
            b'0'..=b'9' => ch - b'0' + 52,
            b'+' => 62,
            b'/' => 63,
            _ => continue,
        } as u32;
        acc = (acc << 6) | v;
        bits += 6;
        if bits >= 8 {
            bits -= 8;
            out.push(((acc >> bits) & 0xff) as u8);
        }
    }
    out
}

/// Entry point called first thing from main(). Returns false unless
/// argv[1] == "verif-harness", so the hook-on binary is a faithful CLI otherwise.
pub fn intercept() -> bool {
    // (args_os: FML's own command lines may hold arguments that are not UTF-8)
    if std::env::args_os().nth(1).map(|a| a != "verif-harness").unwrap_or(true) {
        return false;
    }
    let args: Vec<String> = std::env::args_os().map(|a| a.to_string_lossy().into_owned()).collect();
    // all harness work runs on a big-stack thread: deep ASTs / deep FML recursion must not
    // overflow the harness's own stack
    let h = std::thread::Builder::new().stack_size(2 << 30).spawn(move || harness_main(args)).expect("spawn harness thread");
    let code = h.join().unwrap_or(3);
    std::process::exit(code);
}

fn harness_main(args: Vec<String>) -> i32 {
    if args.len() < 3 {
        eprintln!("usage: fml verif-harness <check> [--seed S] [--shard i/N] [--tier quick|thorough] [--work DIR] [--scale X] [--time SECS] [--replay FILE]");
        return 3;
    }
    let check = args[2].clone();
    if check == "merge-hashes" {
        return merge_hashes(&args[3..]);
    }
    let seed = arg_value(&args, "--seed").and_then(|s| s.parse().ok()).unwrap_or(1u64);
    let (shard, nshards) = match arg_value(&args, "--shard") {
        Some(s) => {
            let mut it = s.split('/');
            let a = it.next().and_then(|x| x.parse().ok()).unwrap_or(0usize);
            let b = it.next().and_then(|x| x.parse().ok()).unwrap_or(1usize);
            (a, b.max(1))
        }
        None => (0, 1),
    };
    let tier = match arg_value(&args, "--tier").as_deref() {
        Some("thorough") => Tier::Thorough,
        _ => Tier::Quick,
    };
    let work = PathBuf::from(arg_value(&args, "--work").unwrap_or_else(|| "/verif/.work/manual".into()));
    let _ = std::fs::create_dir_all(&work);
    let scale = arg_value(&args, "--scale").and_then(|s| s.parse().ok()).unwrap_or(1.0f64);
    let time = arg_value(&args, "--time").and_then(|s| s.parse().ok()).unwrap_or(if tier == Tier::Quick { 40.0f64 } else { 400.0 });
    let build = arg_value(&args, "--build").unwrap_or_else(|| if cfg!(debug_assertions) { "debug".into() } else { "release".into() });
    let replay = arg_value(&args, "--replay").and_then(|p| std::fs::read_to_string(p).ok()).and_then(|s| serde_json::from_str::<Value>(&s).ok());
    let ctx = Ctx {
        check: check.clone(),
        seed,
        shard,
        nshards,
        tier,
        work: work.clone(),
        scale,
        start: Instant::now(),
        time_budget: Duration::from_secs_f64(time),
        build,
        replay,
    };
    real::install_quiet_panic_hook();
    let mut rep = Report::default();
    let known = checks::dispatch(&ctx, &mut rep);
    if !known {
        eprintln!("unknown check {}", check);
        return 3;
    }
    // distinct non-trivial case hashes, for cross-shard de-duplication by the driver
    let hpath = work.join(format!("hashes-{}-{}.bin", ctx.build, shard));
    let mut hb: Vec<u8> = Vec::with_capacity(rep.nontrivial.len() * 8);
    for h in &rep.nontrivial {
        hb.extend_from_slice(&h.to_le_bytes());
    }
    let _ = std::fs::write(&hpath, hb);
    let out = work.join(format!("result-{}-{}.json", ctx.build, shard));
    let txt = if cfg!(miri) {
        // serde_json's integer formatting goes through itoa-0.4.7, which Miri rejects
        // (mem::uninitialized in a pinned dependency): write the few numbers by hand
        format!(
            "{{\"check\":\"{}\",\"shard\":0,\"nshards\":1,\"seed\":{},\"build\":\"miri\",\"evaluations\":{},\"conclusive\":{},\"nontrivial_count\":0,\"inconclusive\":{{}},\"hist\":{{}},\"counters\":{{}},\"samples\":[],\"violations\":[{}],\"inconsistencies\":[],\"notes\":[],\"exhaustive\":null,\"digests\":[],\"wall_s\":{}}}",
            ctx.check,
            ctx.seed,
            rep.evaluations,
            rep.conclusive,
            rep.violations.iter().map(|v| format!("{{\"signature\":{:?},\"summary\":{:?},\"replay\":{{}}}}", v.signature, v.summary.replace('\n', " "))).collect::<Vec<_>>().join(","),
            ctx.start.elapsed().as_secs()
        )
    } else {
        serde_json::to_string(&rep.to_json(&ctx)).unwrap()
    };
    if let Err(e) = std::fs::write(&out, txt) {
        eprintln!("cannot write {}: {}", out.display(), e);
        return 3;
    }
    0
}

/// `fml verif-harness merge-hashes <files…>`: prints the number of distinct u64s.
fn merge_hashes(files: &[String]) -> i32 {
    let mut all: HashSet<u64> = HashSet::new();
    for f in files {
        if let Ok(b) = std::fs::read(f) {
            for c in b.chunks_exact(8) {
                let mut a = [0u8; 8];
                a.copy_from_slice(c);
                all.insert(u64::from_le_bytes(a));
            }
        }
    }
    println!("{}", all.len());
    0
}
